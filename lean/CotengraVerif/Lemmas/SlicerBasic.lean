import CotengraVerif.Model.Slicer
import CotengraVerif.Lemmas.Cost

/-!
  Association-list / defaultdict lemmas and the `MaxCounter` representation invariant
  (utils.py:209-276) used by the slicer proofs (C07).
-/
namespace Cotengra

namespace AL
variable {α : Type}

theorem get?_set (d : List (Nat × α)) (k : Nat) (v : α) (x : Nat) :
    get? (set d k v) x = if k = x then some v else get? d x := by
  induction d with
  | nil => simp [set, get?]
  | cons kv t ih =>
    obtain ⟨k', w⟩ := kv
    by_cases h : k' = k
    · subst h
      by_cases hx : k' = x <;> simp [set, get?, hx]
    · by_cases hx : k' = x
      · subst hx
        have : ¬ k = k' := fun e => h e.symm
        simp [set, get?, h, this]
      · simp [set, get?, h, hx, ih]

theorem get?_del (d : List (Nat × α)) (k x : Nat) :
    get? (del d k) x = if k = x then none else get? d x := by
  induction d with
  | nil => simp [del, get?]
  | cons kv t ih =>
    obtain ⟨k', w⟩ := kv
    unfold del at ih ⊢
    by_cases h : k' = k
    · subst h
      simp only [List.filter_cons, bne_self_eq_false, Bool.false_eq_true, if_false, ih]
      by_cases hx : k' = x <;> simp [get?, hx]
    · have h' : (k' != k) = true := by simpa using h
      simp only [List.filter_cons, h', if_true, get?, ih]
      by_cases hx : k' = x
      · subst hx
        have : ¬ k = k' := fun e => h e.symm
        simp [this]
      · simp [hx]

theorem has_iff (d : List (Nat × α)) (x : Nat) : has d x = true ↔ ∃ v, get? d x = some v := by
  unfold has
  cases get? d x <;> simp

theorem has_set (d : List (Nat × α)) (k : Nat) (v : α) (x : Nat) :
    has (set d k v) x = (decide (k = x) || has d x) := by
  unfold has
  rw [get?_set]
  by_cases h : k = x <;> simp [h]

theorem has_del (d : List (Nat × α)) (k x : Nat) :
    has (del d k) x = (!decide (k = x) && has d x) := by
  unfold has
  rw [get?_del]
  by_cases h : k = x <;> simp [h]

theorem keys_set_of_has (d : List (Nat × α)) (k : Nat) (v : α) (h : has d k = true) :
    keys (set d k v) = keys d := by
  induction d with
  | nil => simp [has, get?] at h
  | cons kv t ih =>
    obtain ⟨k', w⟩ := kv
    by_cases hk : k' = k
    · subst hk; simp [set, keys]
    · have : has t k = true := by simpa [has, get?, hk] using h
      have iht := ih this
      simp only [keys] at iht
      simp [set, hk, keys, iht]

theorem mem_keys_iff_has (d : List (Nat × α)) (x : Nat) : x ∈ keys d ↔ has d x = true := by
  induction d with
  | nil => simp [keys, has, get?]
  | cons kv t ih =>
    obtain ⟨k', w⟩ := kv
    by_cases hk : k' = x
    · subst hk; simp [keys, has, get?]
    · have hk' : ¬ x = k' := fun e => hk e.symm
      simp only [keys, List.map_cons, List.mem_cons, hk', false_or]
      simp only [keys] at ih
      rw [ih]
      simp [has, get?, hk]

theorem mem_keys_del (d : List (Nat × α)) (k x : Nat) :
    x ∈ keys (del d k) ↔ (x ≠ k ∧ x ∈ keys d) := by
  rw [mem_keys_iff_has, mem_keys_iff_has, has_del]
  by_cases h : k = x
  · subst h; simp
  · have : x ≠ k := fun e => h e.symm
    simp [h, this]

end AL

namespace IDict

theorem get_addTo (d : IDict) (k : Nat) (v : Int) (x : Nat) :
    get (addTo d k v) x = get d x + if k = x then v else 0 := by
  unfold addTo get
  rw [AL.get?_set]
  by_cases h : k = x
  · subst h; simp
  · simp [h]

theorem get_del (d : IDict) (k x : Nat) : get (AL.del d k) x = if k = x then 0 else get d x := by
  unfold get
  rw [AL.get?_del]
  by_cases h : k = x <;> simp [h]

theorem has_addTo (d : IDict) (k : Nat) (v : Int) (x : Nat) :
    AL.has (addTo d k v) x = (decide (k = x) || AL.has d x) := AL.has_set _ _ _ _

theorem get_foldl_addTo (l : List Nat) (δ : Nat → Int) (d : IDict) (hnd : l.Nodup) (x : Nat) :
    get (l.foldl (fun acc o => addTo acc o (δ o)) d) x = get d x + if x ∈ l then δ x else 0 := by
  induction l generalizing d with
  | nil => simp
  | cons a t ih =>
    have hnd' := List.nodup_cons.1 hnd
    simp only [List.foldl_cons]
    rw [ih _ hnd'.2, get_addTo]
    by_cases hx : a = x
    · subst hx
      simp [hnd'.1]
    · have : ¬ x = a := fun e => hx e.symm
      simp [hx, this]

theorem has_foldl_addTo (l : List Nat) (δ : Nat → Int) (d : IDict) (x : Nat) :
    AL.has (l.foldl (fun acc o => addTo acc o (δ o)) d) x = (decide (x ∈ l) || AL.has d x) := by
  induction l generalizing d with
  | nil => simp
  | cons a t ih =>
    simp only [List.foldl_cons]
    rw [ih, has_addTo]
    by_cases hx : a = x
    · subst hx; simp
    · have : ¬ x = a := fun e => hx e.symm
      simp [hx, this]

theorem get?_append_of_not_has (d : IDict) (x : Nat) (v : Int) (y : Nat) (h : AL.has d x = false) :
    AL.get? (d ++ [(x, v)]) y = if AL.has d y then AL.get? d y else if x = y then some v else none := by
  induction d with
  | nil => simp [AL.get?, AL.has]
  | cons kv t ih =>
    obtain ⟨k, w⟩ := kv
    have hkx : ¬ k = x := by
      intro e; subst e; simp [AL.has, AL.get?] at h
    have ht : AL.has t x = false := by simpa [AL.has, AL.get?, hkx] using h
    by_cases hky : k = y
    · subst hky; simp [AL.get?, AL.has]
    · have := ih ht
      simp only [AL.has] at this
      simp [AL.get?, hky, this, AL.has]
      split <;> rename_i hc <;> simp [hc]

theorem get_touch (d : IDict) (x y : Nat) : get (touch d x) y = get d y := by
  unfold touch
  by_cases h : AL.has d x = true
  · simp [h]
  · have h' : AL.has d x = false := by simpa using h
    simp only [h', Bool.false_eq_true, if_false]
    unfold get
    rw [get?_append_of_not_has d x 0 y h']
    by_cases hy : AL.has d y = true
    · simp [hy]
    · have hy' : AL.has d y = false := by simpa using hy
      have : AL.get? d y = none := by
        unfold AL.has at hy'
        cases hg : AL.get? d y <;> simp_all
      by_cases hxy : x = y <;> simp [hy', this, hxy]

theorem has_touch (d : IDict) (x y : Nat) : AL.has (touch d x) y = (decide (x = y) || AL.has d y) := by
  unfold touch
  by_cases h : AL.has d x = true
  · simp only [h, if_true]
    by_cases hxy : x = y
    · subst hxy; simp [h]
    · simp [hxy]
  · have h' : AL.has d x = false := by simpa using h
    simp only [h', Bool.false_eq_true, if_false]
    unfold AL.has at *
    rw [get?_append_of_not_has d x 0 y (by simpa [AL.has] using h')]
    unfold AL.has
    by_cases hy : (AL.get? d y).isSome = true
    · simp [hy]
    · by_cases hxy : x = y <;> simp [hy, hxy]

theorem get_foldl_touch (l : List Nat) (d : IDict) (y : Nat) : get (l.foldl touch d) y = get d y := by
  induction l generalizing d with
  | nil => rfl
  | cons a t ih => simp only [List.foldl_cons, ih, get_touch]

theorem has_foldl_touch (l : List Nat) (d : IDict) (y : Nat) :
    AL.has (l.foldl touch d) y = (decide (y ∈ l) || AL.has d y) := by
  induction l generalizing d with
  | nil => simp
  | cons a t ih =>
    simp only [List.foldl_cons, ih, has_touch]
    by_cases h : a = y
    · subst h; simp
    · have : ¬ y = a := fun e => h e.symm
      simp [h, this]

end IDict

/-! ## MaxCounter -/
namespace MaxCounter
open Legs

/-- the maximum of a multiset of naturals, `none` (= `-inf`) when empty -/
def maxOpt (M : List Nat) : Option Nat := if M = [] then none else some (Net.listMax M)

theorem foldl_max_spec (t : List Nat) (k : Nat) :
    (t.foldl max k = k ∨ t.foldl max k ∈ t) ∧ k ≤ t.foldl max k ∧ ∀ y ∈ t, y ≤ t.foldl max k := by
  induction t generalizing k with
  | nil => simp
  | cons a t ih =>
    simp only [List.foldl_cons]
    obtain ⟨h1, h2, h3⟩ := ih (max k a)
    refine ⟨?_, by omega, ?_⟩
    · rcases h1 with h | h
      · by_cases hka : a ≤ k
        · left; rw [h]; omega
        · right; rw [h]; simp; left; omega
      · right; simp [h]
    · intro y hy
      rcases List.mem_cons.1 hy with e | e
      · subst e; omega
      · exact h3 y e

/-- `m` is the maximum of the non-empty list `M` -/
def IsMax (M : List Nat) (m : Nat) : Prop := m ∈ M ∧ ∀ y ∈ M, y ≤ m

theorem isMax_unique {M : List Nat} {a b : Nat} (ha : IsMax M a) (hb : IsMax M b) : a = b := by
  have := ha.2 b hb.1
  have := hb.2 a ha.1
  omega

theorem listMax_isMax (M : List Nat) (h : M ≠ []) : IsMax M (Net.listMax M) := by
  unfold Net.listMax
  obtain ⟨h1, _, h3⟩ := foldl_max_spec M 0
  refine ⟨?_, h3⟩
  rcases h1 with e | e
  · cases M with
    | nil => exact absurd rfl h
    | cons a t =>
      have := h3 a (List.mem_cons_self)
      have ha : a = 0 := by omega
      rw [e, ← ha]; exact List.mem_cons_self
  · exact e

theorem keysMax_isMax (K : List Nat) (m : Nat) (h : keysMax K = some m) : IsMax K m := by
  cases K with
  | nil => simp [keysMax] at h
  | cons k t =>
    simp only [keysMax, Option.some.injEq] at h
    obtain ⟨h1, h2, h3⟩ := foldl_max_spec t k
    rw [h] at h1 h2 h3
    refine ⟨?_, ?_⟩
    · rcases h1 with e | e
      · rw [e]; exact List.mem_cons_self
      · exact List.mem_cons_of_mem _ e
    · intro y hy
      rcases List.mem_cons.1 hy with e | e
      · subst e; exact h2
      · exact h3 y e

theorem keysMax_eq_maxOpt (K M : List Nat) (h : ∀ x, x ∈ K ↔ x ∈ M) : keysMax K = maxOpt M := by
  unfold maxOpt
  by_cases hM : M = []
  · subst hM
    cases K with
    | nil => simp [keysMax]
    | cons k t => exact absurd ((h k).1 List.mem_cons_self) (by simp)
  · simp only [hM, if_false]
    have hK : K ≠ [] := by
      intro e; subst e
      cases M with
      | nil => exact hM rfl
      | cons a t => exact absurd ((h a).2 List.mem_cons_self) (by simp)
    cases hk : keysMax K with
    | none => cases K with
      | nil => exact absurd rfl hK
      | cons k t => simp [keysMax] at hk
    | some m =>
      have h1 := keysMax_isMax K m hk
      have h2 := listMax_isMax M hM
      have h1' : IsMax M m := ⟨(h m).1 h1.1, fun y hy => h1.2 y ((h y).2 hy)⟩
      rw [isMax_unique h1' h2]

/-- the counter `m` represents the multiset `M` -/
structure Rep (m : MaxCounter) (M : List Nat) : Prop where
  nodup : (keys m.c).Nodup
  pos : Pos m.c
  cnt : ∀ x, Legs.get m.c x = M.count x
  mx : m.mx = maxOpt M

theorem rep_empty : Rep empty [] :=
  ⟨by simp [empty, keys], (fun _ h => by cases h), (by simp [empty]), (by simp [empty, maxOpt])⟩

theorem listMax_cons (x : Nat) (M : List Nat) : Net.listMax (x :: M) = max x (Net.listMax M) := by
  unfold Net.listMax
  simp only [List.foldl_cons]
  have : ∀ (l : List Nat) (a b : Nat), l.foldl max (max a b) = max b (l.foldl max a) := by
    intro l
    induction l with
    | nil => intro a b; simp [Nat.max_comm]
    | cons c t ih =>
      intro a b
      simp only [List.foldl_cons]
      rw [show max (max a b) c = max (max a c) b by omega, ih]
  rw [this]

theorem rep_add (m : MaxCounter) (M : List Nat) (x : Nat) (h : Rep m M) : Rep (m.add x) (x :: M) := by
  refine ⟨keys_nodup_add _ _ _ h.nodup, pos_add _ _ _ h.pos (by omega), ?_, ?_⟩
  · intro y
    simp only [add, get_add, h.cnt, List.count_cons]
    by_cases hxy : x = y <;> simp [hxy]
  · simp only [add, h.mx, maxOpt]
    by_cases hM : M = []
    · subst hM; simp [optMax, Net.listMax]
    · simp only [hM, if_false, optMax, List.cons_ne_nil, listMax_cons, Nat.max_comm]

theorem mem_keys_iff_mem (m : MaxCounter) (M : List Nat) (h : Rep m M) (x : Nat) :
    x ∈ keys m.c ↔ x ∈ M := by
  rw [mem_keys_iff_get_pos _ h.nodup h.pos, h.cnt, List.count_pos_iff]

theorem get_without (L : Legs) (x y : Nat) (hnd : (keys L).Nodup) :
    Legs.get (Legs.without L x) y = if y = x then 0 else Legs.get L y := by
  unfold Legs.without
  rw [get_filter _ _ hnd]
  by_cases h : y = x <;> simp [h]

theorem keys_map_snd (L : Legs) (f : Ix × Nat → Ix × Nat) (hf : ∀ kv, (f kv).1 = kv.1) :
    keys (L.map f) = keys L := by
  unfold keys
  rw [List.map_map]
  apply List.map_congr_left
  intro kv _
  exact hf kv

theorem get_map_dec (L : Legs) (x c y : Nat) :
    Legs.get (L.map (fun kv => if kv.1 = x then (kv.1, c) else kv)) y =
      if y = x ∧ y ∈ keys L then c else Legs.get L y := by
  induction L with
  | nil => simp [Legs.get, keys]
  | cons kv t ih =>
    obtain ⟨k, v⟩ := kv
    by_cases hk : k = x
    · subst hk
      by_cases hy : k = y
      · subst hy; simp [Legs.get, keys]
      · have hy' : ¬ y = k := fun e => hy e.symm
        simp only [List.map_cons, if_true, Legs.get, hy, if_false, ih, hy', false_and]
    · by_cases hy : k = y
      · subst hy; simp [Legs.get, hk]
      · have hy' : ¬ y = k := fun e => hy e.symm
        have hm : (y ∈ keys ((k, v) :: t)) ↔ (y ∈ keys t) := by simp [keys, hy']
        simp only [List.map_cons, hk, if_false, Legs.get, hy, ih]
        by_cases hc : y = x ∧ y ∈ keys t
        · rw [if_pos hc, if_pos ⟨hc.1, hm.2 hc.2⟩]
        · rw [if_neg hc, if_neg (fun h => hc ⟨h.1, hm.1 h.2⟩)]

theorem rep_discard (m : MaxCounter) (M : List Nat) (x : Nat) (h : Rep m M) (hx : x ∈ M) :
    Rep (m.discard x) (M.erase x) := by
  have hcx : 1 ≤ Legs.get m.c x := by rw [h.cnt]; exact List.count_pos_iff.2 hx
  unfold discard
  simp only
  by_cases hle : Legs.get m.c x ≤ 1
  · -- last copy: the key is deleted
    have hc1 : M.count x = 1 := by rw [← h.cnt]; omega
    have hrep' : (keys (Legs.without m.c x)).Nodup ∧ Pos (Legs.without m.c x) ∧
        ∀ y, Legs.get (Legs.without m.c x) y = (M.erase x).count y := by
      refine ⟨keys_nodup_filter _ _ h.nodup, pos_filter _ _ h.pos, ?_⟩
      intro y
      rw [get_without _ _ _ h.nodup, List.count_erase]
      by_cases hy : y = x
      · subst hy; simp [hc1]
      · have : ¬ x = y := fun e => hy e.symm
        simp [hy, this, h.cnt]
    have hmem : ∀ y, y ∈ keys (Legs.without m.c x) ↔ y ∈ M.erase x := by
      intro y
      rw [mem_keys_iff_get_pos _ hrep'.1 hrep'.2.1, hrep'.2.2, List.count_pos_iff]
    simp only [hle, if_true]
    by_cases hmx : m.mx = some x
    · simp only [hmx, if_true]
      exact ⟨hrep'.1, hrep'.2.1, hrep'.2.2, keysMax_eq_maxOpt _ _ hmem⟩
    · simp only [hmx, if_false]
      refine ⟨hrep'.1, hrep'.2.1, hrep'.2.2, ?_⟩
      -- the maximum is some other element, still present
      have hMne : M ≠ [] := by intro e; subst e; cases hx
      have hmaxM := listMax_isMax M hMne
      have hne : Net.listMax M ≠ x := by
        intro e
        apply hmx
        rw [h.mx, maxOpt, if_neg hMne, e]
      have hin : Net.listMax M ∈ M.erase x := (List.mem_erase_of_ne hne).2 hmaxM.1
      have hE : M.erase x ≠ [] := by intro e; rw [e] at hin; cases hin
      have hmaxE : IsMax (M.erase x) (Net.listMax M) :=
        ⟨hin, fun y hy => hmaxM.2 y (List.mem_of_mem_erase hy)⟩
      show m.mx = maxOpt (M.erase x)
      rw [h.mx, maxOpt, maxOpt, if_neg hMne, if_neg hE,
        isMax_unique hmaxE (listMax_isMax _ hE)]
  · -- more than one copy: decrement
    simp only [hle, if_false]
    have hk : keys (m.c.map (fun kv => if kv.1 = x then (kv.1, Legs.get m.c x - 1) else kv)) = keys m.c := by
      apply keys_map_snd
      intro kv; split <;> rfl
    have hxk : x ∈ keys m.c := (mem_keys_iff_mem m M h x).2 hx
    refine ⟨by rw [hk]; exact h.nodup, ?_, ?_, ?_⟩
    · intro kv hkv
      obtain ⟨kv0, h0, rfl⟩ := List.mem_map.1 hkv
      split
      · simp; omega
      · exact h.pos _ h0
    · intro y
      show Legs.get (m.c.map _) y = _
      rw [get_map_dec, List.count_erase]
      by_cases hy : y = x
      · subst hy; simp [hxk, h.cnt]
      · have : ¬ x = y := fun e => hy e.symm
        simp [hy, this, h.cnt]
    · show m.mx = maxOpt (M.erase x)
      have hMne : M ≠ [] := by intro e; subst e; cases hx
      have hmaxM := listMax_isMax M hMne
      have h2 : 2 ≤ M.count x := by rw [← h.cnt]; omega
      have hxin : x ∈ M.erase x := by
        rw [← List.count_pos_iff, List.count_erase_self]; omega
      have hin : Net.listMax M ∈ M.erase x := by
        by_cases e : Net.listMax M = x
        · rw [e]; exact hxin
        · exact (List.mem_erase_of_ne e).2 hmaxM.1
      have hE : M.erase x ≠ [] := by intro e; rw [e] at hin; cases hin
      have hmaxE : IsMax (M.erase x) (Net.listMax M) :=
        ⟨hin, fun y hy => hmaxM.2 y (List.mem_of_mem_erase hy)⟩
      rw [h.mx, maxOpt, maxOpt, if_neg hMne, if_neg hE, isMax_unique hmaxE (listMax_isMax _ hE)]

end MaxCounter
end Cotengra
