import CotengraVerif.Lemmas.PathsBasic

/-!
  `linear_to_ssa` and `ssa_to_linear` are mutually inverse on valid paths (steps compared as
  sorted lists), and each maps valid paths to valid paths.
-/
namespace Cotengra.Paths

/-- a linear path is valid from `len` live tensors on: the positions of a step are distinct
    and in range; a step of `k` positions leaves `len - k + 1` tensors -/
def ValidLinear : Nat → Path → Prop
  | _, [] => True
  | len, con :: rest => con.Nodup ∧ (∀ c ∈ con, c < len) ∧ ValidLinear (len - con.length + 1) rest

/-- an SSA path is valid from the live ids `ids` (next fresh id `ssa`) on: the ids of a step
    are distinct and live; they die, the fresh id becomes live -/
def ValidSsa : List Nat → Nat → Path → Prop
  | _, _, [] => True
  | ids, ssa, scon :: rest =>
    scon.Nodup ∧ (∀ s ∈ scon, s ∈ ids) ∧
      ValidSsa (ids.filter (fun x => !scon.contains x) ++ [ssa]) (ssa + 1) rest

theorem eraseIdx_eq_filter (l : List Nat) (hn : l.Nodup) (c : Nat) (hc : c < l.length) :
    l.eraseIdx c = l.filter (fun x => x != l.getD c 0) := by
  induction l generalizing c with
  | nil => simp at hc
  | cons a t ih =>
    have hn' := List.nodup_cons.1 hn
    cases c with
    | zero =>
      simp only [List.eraseIdx_zero, List.tail_cons, List.getD_cons_zero, List.filter_cons, bne_self_eq_false,
        Bool.false_eq_true, if_false]
      symm
      apply List.filter_eq_self.2
      intro x hx
      have : x ≠ a := fun e => hn'.1 (e ▸ hx)
      simpa using this
    | succ c =>
      have hc' : c < t.length := by simpa using hc
      have hmem : t.getD c 0 ∈ t := by
        rw [getD_eq_getElem' _ _ hc']; exact List.getElem_mem _
      have hne : a ≠ t.getD c 0 := fun e => hn'.1 (e ▸ hmem)
      have hb : (a != t.getD c 0) = true := by simpa using hne
      simp only [List.eraseIdx_cons_succ, List.getD_cons_succ, List.filter_cons, hb, if_true]
      rw [ih hn'.2 c hc']

/-- what is left after popping: the ids that were not popped -/
theorem popMany_desc_filter (ids : List Nat) (hn : ids.Nodup) (cs : List Nat)
    (h : DescIn ids.length cs) (xs ids' : List Nat) (hp : popMany ids cs = some (xs, ids')) :
    ids' = ids.filter (fun x => !xs.contains x) := by
  induction cs generalizing ids xs ids' with
  | nil =>
    simp only [popMany, Option.some.injEq, Prod.mk.injEq] at hp
    obtain ⟨rfl, rfl⟩ := hp
    simp
  | cons c cs ih =>
    obtain ⟨hpw, hin⟩ := h
    have hpw' := List.pairwise_cons.1 hpw
    have hc : c < ids.length := hin c List.mem_cons_self
    have hlen : (ids.eraseIdx c).length = ids.length - 1 := List.length_eraseIdx_of_lt hc
    have hd : DescIn (ids.eraseIdx c).length cs :=
      ⟨hpw'.2, fun k hk => by have := hpw'.1 k hk; omega⟩
    unfold popMany at hp
    rw [List.getElem?_eq_getElem hc] at hp
    simp only at hp
    cases hrec : popMany (ids.eraseIdx c) cs with
    | none => simp [hrec] at hp
    | some r =>
      obtain ⟨xs', ids''⟩ := r
      simp only [hrec, Option.some.injEq, Prod.mk.injEq] at hp
      obtain ⟨rfl, rfl⟩ := hp
      have hn2 : (ids.eraseIdx c).Nodup := List.Nodup.sublist (List.eraseIdx_sublist _ _) hn
      rw [ih (ids.eraseIdx c) hn2 hd xs' ids'' hrec, eraseIdx_eq_filter ids hn c hc,
        List.filter_filter, getD_eq_getElem' _ _ hc]
      apply List.filter_congr
      intro x _
      simp only [List.contains_cons, Bool.not_or, bne, Bool.and_comm]

theorem map_getD_nodup (ids : List Nat) (hs : ids.Pairwise (· < ·)) (cs : List Nat) (hn : cs.Nodup)
    (hin : ∀ c ∈ cs, c < ids.length) : (cs.map fun c => ids.getD c 0).Nodup := by
  unfold List.Nodup
  rw [List.pairwise_map]
  refine (List.Pairwise.and_mem.1 hn).imp ?_
  rintro a b ⟨ha, hb, hab⟩ he
  rcases Nat.lt_trichotomy a b with h | h | h
  · have := getD_lt_of_strict ids hs a b h (hin b hb); omega
  · exact hab h
  · have := getD_lt_of_strict ids hs b a h (hin a ha); omega

theorem desc_nodup (cs : List Nat) (h : cs.Pairwise (· > ·)) : cs.Nodup :=
  h.imp (fun hab => by omega)

/-- **linear → ssa → linear** -/
theorem linear_ssa_roundtrip (ids : List Nat) (ssa : Nat) (path : Path) (hok : IdsOK ids ssa)
    (hv : ValidLinear ids.length path) :
    ∃ sp, linearToSsaLoop ids ssa path = some sp ∧
      ssaToLinearLoop ids ssa sp = some (path.map sortAsc) ∧ ValidSsa ids ssa sp := by
  induction path generalizing ids ssa with
  | nil => exact ⟨[], rfl, rfl, trivial⟩
  | cons con rest ih =>
    obtain ⟨hnd, hin, hrest⟩ := hv
    have hdesc := descIn_sortDesc ids.length con hnd hin
    obtain ⟨ids', hpop, hsub, hlen⟩ := popMany_desc ids (sortDesc con) hdesc
    have hcl : (sortDesc con).length = con.length := (sortDesc_perm con).length_eq
    have hok' := hok.step hsub
    have hlen' : (ids' ++ [ssa]).length = ids.length - con.length + 1 := by
      simp only [List.length_append, List.length_singleton]; omega
    obtain ⟨sp, h1, h2, h3⟩ := ih (ids' ++ [ssa]) (ssa + 1) hok' (by rw [hlen']; exact hrest)
    refine ⟨(sortDesc con).map (fun c => ids.getD c 0) :: sp, ?_, ?_, ?_⟩
    · simp only [linearToSsaLoop, hpop, h1]
    · have hpos : ((sortDesc con).map fun c => ids.getD c 0).map (bisectLeft ids) = sortDesc con := by
        rw [List.map_map]
        conv => rhs; rw [← List.map_id (sortDesc con)]
        apply List.map_congr_left
        intro c hc
        exact bisectLeft_getElem ids hok.1 c (hdesc.2 c hc)
      have hsort : sortAsc (sortDesc con) = sortAsc con := sortAsc_of_perm (sortDesc_perm con)
      simp only [ssaToLinearLoop, hpos, hsort]
      have : (sortAsc con).reverse = sortDesc con := rfl
      rw [this, hpop]
      simp only [h2, List.map_cons]
    · have hnd' : (sortDesc con).Nodup := desc_nodup _ hdesc.1
      refine ⟨map_getD_nodup ids hok.1 _ hnd' hdesc.2, ?_, ?_⟩
      · intro s hs
        obtain ⟨c, hc, rfl⟩ := List.mem_map.1 hs
        rw [getD_eq_getElem' _ _ (hdesc.2 c hc)]
        exact List.getElem_mem _
      · have hidn : ids.Nodup := hok.1.imp (fun h => by omega)
        rw [← popMany_desc_filter ids hidn _ hdesc _ _ hpop]
        exact h3

theorem idxOf_getD (ids : List Nat) (s : Nat) (hs : s ∈ ids) :
    ids.idxOf s < ids.length ∧ ids.getD (ids.idxOf s) 0 = s := by
  have h1 : ids.idxOf s < ids.length := List.idxOf_lt_length_of_mem hs
  refine ⟨h1, ?_⟩
  rw [getD_eq_getElem' _ _ h1]
  exact List.getElem_idxOf h1

theorem sorted_ge_perm_unique (l₁ l₂ : List Nat) (h₁ : l₁.Pairwise (· ≥ ·)) (h₂ : l₂.Pairwise (· ≥ ·))
    (hp : l₁.Perm l₂) : l₁ = l₂ :=
  List.Perm.eq_of_pairwise (fun _ _ _ _ h1 h2 => Nat.le_antisymm h2 h1) h₁ h₂ hp

/-- **ssa → linear → ssa** -/
theorem ssa_linear_roundtrip (ids : List Nat) (ssa : Nat) (path : Path) (hok : IdsOK ids ssa)
    (hv : ValidSsa ids ssa path) :
    ∃ lp, ssaToLinearLoop ids ssa path = some lp ∧
      linearToSsaLoop ids ssa lp = some (path.map sortDesc) ∧ ValidLinear ids.length lp := by
  induction path generalizing ids ssa with
  | nil => exact ⟨[], rfl, rfl, trivial⟩
  | cons scon rest ih =>
    obtain ⟨hnd, hin, hrest⟩ := hv
    have hidn : ids.Nodup := hok.1.imp (fun h => by omega)
    -- positions of the ids
    have hpos : scon.map (bisectLeft ids) = scon.map (fun s => ids.idxOf s) := by
      apply List.map_congr_left
      intro s hs
      have := idxOf_getD ids s (hin s hs)
      have h := bisectLeft_getElem ids hok.1 _ this.1
      rw [this.2] at h
      exact h
    have hposn : (scon.map fun s => ids.idxOf s).Nodup := by
      unfold List.Nodup
      rw [List.pairwise_map]
      refine (List.Pairwise.and_mem.1 hnd).imp ?_
      rintro a b ⟨ha, hb, hab⟩ he
      apply hab
      have h1 := (idxOf_getD ids a (hin a ha)).2
      have h2 := (idxOf_getD ids b (hin b hb)).2
      rw [he] at h1
      exact h1.symm.trans h2
    have hposin : ∀ c ∈ scon.map (fun s => ids.idxOf s), c < ids.length := by
      intro c hc
      obtain ⟨s, hs, rfl⟩ := List.mem_map.1 hc
      exact (idxOf_getD ids s (hin s hs)).1
    set pos := scon.map (fun s => ids.idxOf s) with hposdef
    have hdesc : DescIn ids.length (sortAsc pos).reverse := descIn_sortDesc ids.length pos hposn hposin
    obtain ⟨ids', hpop, hsub, hlen⟩ := popMany_desc ids (sortAsc pos).reverse hdesc
    have hcl : (sortAsc pos).reverse.length = scon.length := by
      rw [List.length_reverse, (sortAsc_perm pos).length_eq, hposdef, List.length_map]
    have hok' := hok.step hsub
    -- the popped ids are exactly `scon`, in descending order
    have hpopped : (sortAsc pos).reverse.map (fun c => ids.getD c 0) = sortDesc scon := by
      apply sorted_ge_perm_unique
      · rw [List.pairwise_map]
        refine (List.Pairwise.and_mem.1 hdesc.1).imp ?_
        rintro a b ⟨ha, hb, hab⟩
        have := getD_lt_of_strict ids hok.1 b a hab (hdesc.2 a ha)
        omega
      · exact sortDesc_sorted scon
      · refine (List.Perm.map _ ((List.reverse_perm _).trans (sortAsc_perm pos))).trans ?_
        rw [hposdef, List.map_map]
        have : scon.map ((fun c => ids.getD c 0) ∘ fun s => ids.idxOf s) = scon := by
          conv => rhs; rw [← List.map_id scon]
          apply List.map_congr_left
          intro s hs
          exact (idxOf_getD ids s (hin s hs)).2
        rw [this]
        exact (sortDesc_perm scon).symm
    have hids' : ids' ++ [ssa] = ids.filter (fun x => !scon.contains x) ++ [ssa] := by
      rw [popMany_desc_filter ids hidn _ hdesc _ _ hpop, hpopped]
      congr 1
      apply List.filter_congr
      intro x _
      have : (sortDesc scon).contains x = scon.contains x := by
        rw [Bool.eq_iff_iff]
        simp only [List.contains_eq_mem, decide_eq_true_eq]
        exact (sortDesc_perm scon).mem_iff
      rw [this]
    obtain ⟨lp, h1, h2, h3⟩ := ih (ids' ++ [ssa]) (ssa + 1) hok' (by rw [hids']; exact hrest)
    refine ⟨sortAsc pos :: lp, ?_, ?_, ?_⟩
    · simp only [ssaToLinearLoop, hpos, hpop, h1]
    · have : sortDesc (sortAsc pos) = (sortAsc pos).reverse := by
        unfold sortDesc; rw [sortAsc_idem]
      simp only [linearToSsaLoop, this, hpop, h2, hpopped, List.map_cons]
    · refine ⟨sortAsc_nodup _ hposn, fun c hc => hposin c ((sortAsc_perm pos).mem_iff.1 hc), ?_⟩
      have hl : (sortAsc pos).length = scon.length := by
        rw [(sortAsc_perm pos).length_eq, hposdef, List.length_map]
      have hlen' : (ids' ++ [ssa]).length = ids.length - (sortAsc pos).length + 1 := by
        simp only [List.length_append, List.length_singleton]; omega
      rw [← hlen']
      exact h3

end Cotengra.Paths
