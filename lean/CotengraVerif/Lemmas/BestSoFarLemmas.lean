import CotengraVerif.Model.BestSoFar

/-!
  Lemmas about the best-so-far state of `RandomGreedyOptimizer` (`Model/BestSoFar.lean`).
-/
namespace Cotengra
namespace BestSoFar
open Path

/-- a fresh instance adopts and returns what the inner finder found for the queried network -/
theorem ssaPath_init (q : Found) :
    ssaPath init q = (⟨some q.path, some q.flops⟩, some q.path) := by
  simp [ssaPath, init, better]

theorem answers_fresh (qs : List Found) :
    answers .freshPerCall qs = qs.map fun q => some q.path := by
  simp [answers, ssaPath_init]

/-- the invariant of a shared instance that only ever sees networks of `N` tensors:
    a best path is stored as soon as a finite best score is, and it is a valid complete path -/
def Good (N : Nat) (s : State) : Prop :=
  (s.bestPath = none → s.bestFlops = none) ∧ ∀ p, s.bestPath = some p → checkSSA N p = true

theorem good_init (N : Nat) : Good N init := by
  constructor
  · intro _; rfl
  · intro p h; cases h

theorem ssaPath_good {N : Nat} {s : State} (q : Found) (hs : Good N s)
    (hq : checkSSA N q.path = true) :
    Good N (ssaPath s q).1 ∧ ∃ p, (ssaPath s q).2 = some p ∧ checkSSA N p = true := by
  by_cases hb : better q.flops s.bestFlops = true
  · have e : ssaPath s q = (⟨some q.path, some q.flops⟩, some q.path) := by simp [ssaPath, hb]
    rw [e]
    refine ⟨⟨?_, ?_⟩, q.path, rfl, hq⟩
    · intro h; cases h
    · intro p h; cases h; exact hq
  · have e : ssaPath s q = (s, s.bestPath) := by simp [ssaPath, hb]
    rw [e]
    refine ⟨hs, ?_⟩
    cases hp : s.bestPath with
    | none =>
      have := hs.1 hp
      rw [this] at hb
      exact absurd rfl hb
    | some p => exact ⟨p, rfl, hs.2 p hp⟩

theorem sharedAnswers_same_network (N : Nat) :
    ∀ (qs : List Found) (s : State), Good N s → (∀ q ∈ qs, checkSSA N q.path = true) →
      ∀ a ∈ sharedAnswers s qs, ∃ p, a = some p ∧ checkSSA N p = true := by
  intro qs
  induction qs with
  | nil => intro s _ _ a ha; simp [sharedAnswers] at ha
  | cons q rest ih =>
    intro s hs hq a ha
    have h1 := ssaPath_good q hs (hq q List.mem_cons_self)
    simp only [sharedAnswers, List.mem_cons] at ha
    rcases ha with e | e
    · obtain ⟨p, hp, hv⟩ := h1.2
      exact ⟨p, by rw [e, hp], hv⟩
    · exact ih _ h1.1 (fun q' hq' => hq q' (List.mem_cons_of_mem _ hq')) a e

/-- when every query is strictly cheaper than everything seen before, the shared instance answers
    each query with the path found for it -/
theorem sharedAnswers_decreasing :
    ∀ (qs : List Found) (s : State), (∀ q ∈ qs, better q.flops s.bestFlops = true) →
      qs.Pairwise (fun a b => b.flops < a.flops) →
      sharedAnswers s qs = qs.map fun q => some q.path := by
  intro qs
  induction qs with
  | nil => intro s _ _; rfl
  | cons q rest ih =>
    intro s hb hp
    have hq := hb q List.mem_cons_self
    have hstep : ssaPath s q = (⟨some q.path, some q.flops⟩, some q.path) := by
      simp [ssaPath, hq]
    simp only [sharedAnswers, hstep, List.map_cons]
    congr 1
    rw [List.pairwise_cons] at hp
    apply ih _ _ hp.2
    intro q' hq'
    simp only [better, decide_eq_true_eq]
    exact hp.1 q' hq'

end BestSoFar
end Cotengra
