import CotengraVerif.Lemmas.SingleOp

/-!
  `_parse_einsum_single` end to end: facts about the first loop (`scan`), the reference
  `einsum1` as a labelled array, and the soundness of plan + three-step evaluation.
-/
namespace Cotengra.Bmm
open Cotengra Cotengra.FA

/-! ### `uniq` -/

theorem mem_uniq {l : List Ix} {i : Ix} : i ∈ uniq l ↔ i ∈ l := by
  induction l with
  | nil => simp [uniq]
  | cons a r ih =>
    simp only [uniq, List.mem_cons, List.mem_filter, bne_iff_ne, ne_eq, ih]
    constructor
    · rintro (h | h)
      · exact Or.inl h
      · exact Or.inr h.1
    · rintro (h | h)
      · exact Or.inl h
      · by_cases hia : i = a
        · exact Or.inl hia
        · exact Or.inr ⟨h, hia⟩

theorem nodup_uniq (l : List Ix) : (uniq l).Nodup := by
  induction l with
  | nil => simp [uniq]
  | cons a r ih =>
    simp only [uniq, List.nodup_cons, List.mem_filter, bne_self_eq_false, Bool.false_eq_true,
      and_false, not_false_eq_true, true_and]
    exact ih.filter _

/-! ### the first loop -/

structure ScanInv (out p : List Ix) (st : List Ix × List Ix × List Ix) : Prop where
  seen : ∀ i, i ∈ st.2.2 ↔ i ∈ p
  nd_mem : ∀ i, i ∈ st.1 ↔ 2 ≤ p.count i
  nd_nodup : st.1.Nodup
  ns_mem : ∀ i, i ∈ st.2.1 ↔ (i ∈ p ∧ i ∉ out)
  ns_nodup : st.2.1.Nodup

theorem count_snoc (p : List Ix) (ix i : Ix) :
    (p ++ [ix]).count i = p.count i + if i = ix then 1 else 0 := by
  rw [List.count_append, List.count_singleton]
  by_cases h : i = ix
  · subst h; simp
  · have : (ix == i) = false := by simpa using Ne.symm h
    simp [h, this]

theorem scanInv_step {out p : List Ix} {st} (h : ScanInv out p st) (ix : Ix) :
    ScanInv out (p ++ [ix]) (scanStep out st ix) := by
  obtain ⟨nd, ns, seen⟩ := st
  obtain ⟨h1, h2, h3, h4, h5⟩ := h
  simp only at h1 h2 h3 h4 h5
  simp only [scanStep]
  by_cases c1 : has nd ix = true
  · -- already known to be repeated
    have hnd : ix ∈ nd := by simpa [has] using c1
    have hc : 2 ≤ p.count ix := (h2 ix).1 hnd
    have hm : ix ∈ p := List.count_pos_iff.1 (by omega)
    simp only [c1, ↓reduceIte]
    refine ⟨?_, ?_, h3, ?_, h5⟩
    · intro i; rw [h1]; simp only [List.mem_append, List.mem_singleton]
      exact ⟨Or.inl, fun h => h.elim id fun h => h ▸ hm⟩
    · intro i; rw [h2, count_snoc]
      by_cases hi : i = ix
      · subst hi; simp only [↓reduceIte]; omega
      · simp [hi]
    · intro i; rw [h4]; simp only [List.mem_append, List.mem_singleton]
      exact ⟨fun h => ⟨Or.inl h.1, h.2⟩, fun h => ⟨h.1.elim id fun h' => h' ▸ hm, h.2⟩⟩
  · have hnd : ix ∉ nd := by simpa [has] using c1
    have hc : p.count ix < 2 := by
      by_contra hcc; exact hnd ((h2 ix).2 (by omega))
    simp only [c1, Bool.false_eq_true, ↓reduceIte]
    by_cases c2 : has seen ix = true
    · -- second occurrence
      have hm : ix ∈ p := (h1 ix).1 (by simpa [has] using c2)
      have hc1 : p.count ix = 1 := by
        have := List.count_pos_iff.2 hm; omega
      simp only [c2, ↓reduceIte]
      refine ⟨?_, ?_, ?_, ?_, h5⟩
      · intro i; rw [h1]; simp only [List.mem_append, List.mem_singleton]
        exact ⟨Or.inl, fun h => h.elim id fun h => h ▸ hm⟩
      · intro i; rw [count_snoc]; simp only [List.mem_append, List.mem_singleton, h2]
        by_cases hi : i = ix
        · subst hi; simp only [↓reduceIte, or_true, true_iff]; omega
        · simp [hi]
      · refine List.nodup_append.2 ⟨h3, by simp, ?_⟩
        simp only [List.mem_singleton, ne_eq, forall_eq]
        intro a ha hax
        exact hnd (hax ▸ ha)
      · intro i; rw [h4]; simp only [List.mem_append, List.mem_singleton]
        exact ⟨fun h => ⟨Or.inl h.1, h.2⟩, fun h => ⟨h.1.elim id fun h' => h' ▸ hm, h.2⟩⟩
    · -- first occurrence
      have hm : ix ∉ p := fun hm => c2 (by simpa [has] using (h1 ix).2 hm)
      have hc0 : p.count ix = 0 := List.count_eq_zero.2 hm
      simp only [c2, Bool.false_eq_true, ↓reduceIte]
      refine ⟨?_, ?_, h3, ?_, ?_⟩
      · intro i; simp only [List.mem_cons, h1, List.mem_append, List.mem_singleton]; tauto
      · intro i; rw [h2, count_snoc]
        by_cases hi : i = ix
        · subst hi; simp only [↓reduceIte]; omega
        · simp [hi]
      · intro i
        by_cases c3 : has out ix = true
        · have ho : ix ∈ out := by simpa [has] using c3
          simp only [c3, ↓reduceIte, h4, List.mem_append, List.mem_singleton]
          constructor
          · exact fun h => ⟨Or.inl h.1, h.2⟩
          · rintro ⟨h | h, h'⟩
            · exact ⟨h, h'⟩
            · subst h; exact absurd ho h'
        · have ho : ix ∉ out := by simpa [has] using c3
          simp only [c3, Bool.false_eq_true, ↓reduceIte, List.mem_append, h4, List.mem_singleton]
          constructor
          · rintro (h | h)
            · exact ⟨Or.inl h.1, h.2⟩
            · subst h; exact ⟨Or.inr rfl, ho⟩
          · rintro ⟨h | h, h'⟩
            · exact Or.inl ⟨h, h'⟩
            · exact Or.inr h
      · by_cases c3 : has out ix = true
        · simpa only [c3, ↓reduceIte] using h5
        · simp only [c3, Bool.false_eq_true, ↓reduceIte]
          refine List.nodup_append.2 ⟨h5, by simp, ?_⟩
          simp only [List.mem_singleton, ne_eq, forall_eq]
          intro a ha hax
          subst hax
          exact hm ((h4 a).1 ha).1

theorem scanInv_foldl {out : List Ix} (l : List Ix) :
    ∀ {p st}, ScanInv out p st → ScanInv out (p ++ l) (l.foldl (scanStep out) st) := by
  induction l with
  | nil => intro p st h; simpa using h
  | cons a r ih =>
    intro p st h
    have := ih (scanInv_step h a)
    simpa using this

theorem scan_spec (lhs out : List Ix) :
    (scan lhs out).1.Nodup ∧ (∀ i, i ∈ (scan lhs out).1 ↔ 2 ≤ lhs.count i) ∧
    (scan lhs out).2.Nodup ∧ (∀ i, i ∈ (scan lhs out).2 ↔ (i ∈ lhs ∧ i ∉ out)) := by
  have h0 : ScanInv out [] ([], [], []) := ⟨by simp, by simp, by simp, by simp, by simp⟩
  have := scanInv_foldl lhs h0
  simp only [List.nil_append] at this
  exact ⟨this.nd_nodup, this.nd_mem, this.ns_nodup, this.ns_mem⟩

/-! ### sizes -/

theorem lookup_graph (sz : Ix → Nat) {L : List Ix} {i : Ix} (hi : i ∈ L) :
    (L.map fun a => (a, sz a)).lookup i = some (sz i) := by
  induction L with
  | nil => simp at hi
  | cons a r ih =>
    by_cases ha : i = a
    · subst ha; simp [List.lookup]
    · have hr : i ∈ r := by simpa [ha] using hi
      have : (i == a) = false := by simpa using ha
      simp [List.lookup, this, ih hr]

theorem zip_map_self (sz : Ix → Nat) (l : List Ix) :
    l.zip (l.map sz) = l.map fun a => (a, sz a) := by
  induction l with
  | nil => rfl
  | cons a r ih => simp [ih]

theorem lastSize_map (sz : Ix → Nat) {lhs : List Ix} {i : Ix} (hi : i ∈ lhs) :
    lastSize lhs (lhs.map sz) i = sz i := by
  simp only [lastSize, zip_map_self, ← List.map_reverse]
  rw [lookup_graph sz (by simpa using hi)]
  rfl

theorem szOf_map (sz : Ix → Nat) {t : List Ix} {i : Ix} (hi : i ∈ t) :
    szOf t (t.map sz) i = sz i := by
  have hc : t.contains i = true := by simpa using hi
  have hlt := List.idxOf_lt_length_of_mem hi
  simp only [szOf, hc, ↓reduceIte, List.getD_eq_getElem?_getD]
  rw [List.getElem?_eq_getElem (by simpa using hlt)]
  simp [List.getElem_idxOf hlt]

/-! ### the reference einsum as a labelled array -/

theorem sumEnv_sz_congr {sz1 sz2 : Ix → Nat} {L : List Ix} (h : ∀ i ∈ L, sz1 i = sz2 i) (env) (f) :
    sumEnv sz1 L env f = sumEnv sz2 L env f := by
  induction L generalizing env with
  | nil => rfl
  | cons i r ih =>
    simp only [sumEnv_cons, h i (by simp)]
    apply sumTo_congr
    intro v _
    exact ih (fun j hj => h j (by simp [hj])) _

theorem depOn_get_map (x : FArr) (t : List Ix) : DepOn (fun e => x.get (t.map e)) t := by
  intro e1 e2 h
  simp only
  congr 1
  exact List.map_congr_left h

theorem lab_einsum1 {sz : Ix → Nat} {t d : List Ix} {x : FArr} (hsh : x.shape = t.map sz)
    (hd : ∀ o ∈ d, o ∈ t) :
    Lab sz d (einsum1 t d x) fun env =>
      sumEnv sz (uniq (t.filter fun i => !d.contains i)) env fun e => x.get (t.map e) := by
  rw [lab_iff]
  refine ⟨?_, fun env _ => ?_⟩
  · simp only [einsum1, hsh]
    exact List.map_congr_left fun o ho => szOf_map sz (hd o ho)
  · simp only [einsum1, hsh]
    have hS : ∀ i ∈ uniq (t.filter fun i => !d.contains i), i ∈ t := by
      intro i hi
      exact (List.mem_filter.1 (mem_uniq.1 hi)).1
    rw [sumEnv_sz_congr (fun i hi => szOf_map sz (hS i hi))]
    apply sumEnv_env_congr (depOn_get_map x t)
    intro i hit hiS
    have hid : i ∈ d := by
      by_contra hnd
      apply hiS
      rw [mem_uniq, List.mem_filter]
      exact ⟨hit, by simpa using hnd⟩
    exact bindOut_map_mem d env hid

/-! ### `_parse_einsum_single` + `_einsum_single` -/

theorem applySels_nil (x : FArr) : applySels [] x = some x := rfl

/-- the plan exists, its three-step evaluation succeeds, and the result is the labelled array of
    `Σ_{labels not in out} x[lhs]` with one axis per output label -/
theorem single_plan_lab {sz : Ix → Nat} {lhs out : List Ix} (hout : out.Nodup)
    (hsub : ∀ o ∈ out, o ∈ lhs) {x : FArr} (hsh : x.shape = lhs.map sz) :
    ∃ sp y, parseSingle lhs out x.shape = some sp ∧ evalSingle sp x = some y ∧
      Lab sz out y fun env => sumEnv sz (scan lhs out).2 env fun e => x.get (lhs.map e) := by
  obtain ⟨hnd, hndm, hns, hnsm⟩ := scan_spec lhs out
  have hx : Lab sz lhs x (fun e => x.get (lhs.map e)) := lab_iff.2 ⟨hsh, fun _ _ => rfl⟩
  -- diagonal loop
  have hmem : ∀ i ∈ (scan lhs out).1.reverse, i ∈ lhs := by
    intro i hi
    have := (hndm i).1 (List.mem_reverse.1 hi)
    exact List.count_pos_iff.1 (by omega)
  obtain ⟨y1, hy1, hlab1, hcnt1⟩ := lab_diagLoop (sizes := lastSize lhs x.shape)
    (scan lhs out).1.reverse hx hmem (List.nodup_reverse.2 hnd)
    (fun i hi => by rw [hsh]; exact lastSize_map sz (hmem i hi))
  generalize hdl : diagLoop (lastSize lhs x.shape) (scan lhs out).1.reverse lhs = dl at hy1 hlab1 hcnt1
  have hcnt_le : ∀ j, dl.2.count j ≤ 1 := by
    intro j
    rw [hcnt1 j]
    by_cases hj : j ∈ (scan lhs out).1.reverse
    · simp [hj]
    · simp only [hj, ↓reduceIte]
      have : ¬ 2 ≤ lhs.count j := fun h => hj (List.mem_reverse.2 ((hndm j).2 h))
      omega
  have hnd1 : dl.2.Nodup := List.nodup_iff_count_le_one.2 hcnt_le
  have hmem1 : ∀ j, j ∈ dl.2 ↔ j ∈ lhs := by
    intro j
    rw [← List.count_pos_iff, ← List.count_pos_iff, hcnt1 j]
    by_cases hj : j ∈ (scan lhs out).1.reverse
    · simp only [hj, ↓reduceIte, Nat.lt_add_one, true_iff]
      exact List.count_pos_iff.2 (hmem j hj)
    · simp [hj]
  have hstage1 : optApply applySels
      (if (scan lhs out).1.isEmpty then none else some dl.1) x = some y1 := by
    by_cases he : (scan lhs out).1 = []
    · simp only [he, List.isEmpty_nil, ↓reduceIte, optApply]
      rw [he] at hdl
      simp only [List.reverse_nil, diagLoop] at hdl
      rw [← hdl] at hy1
      simpa using hy1
    · have : (scan lhs out).1.isEmpty = false := by simpa using he
      simp only [this, Bool.false_eq_true, ↓reduceIte, optApply]
      exact hy1
  -- sum
  have hsub2 : ∀ i ∈ (scan lhs out).2, i ∈ dl.2 := fun i hi => (hmem1 i).2 ((hnsm i).1 hi).1
  obtain ⟨y2, hy2, hlab2⟩ : ∃ y2,
      optApply sumAxes (if (scan lhs out).2.isEmpty then none
        else some ((scan lhs out).2.map dl.2.idxOf)) y1 = some y2 ∧
      Lab sz (dl.2.filter fun ix => !has (scan lhs out).2 ix) y2
        (fun env => sumEnv sz (scan lhs out).2 env fun e => x.get (lhs.map e)) := by
    by_cases he : (scan lhs out).2 = []
    · refine ⟨y1, by simp [he, optApply], ?_⟩
      simp only [he, has, List.contains_nil, Bool.not_false, List.filter_true, sumEnv_nil]
      exact hlab1
    · have : (scan lhs out).2.isEmpty = false := by simpa using he
      simp only [this, Bool.false_eq_true, ↓reduceIte, optApply]
      exact lab_sumAxes hlab1 hnd1 hns hsub2
  generalize hl2 : (dl.2.filter fun ix => !has (scan lhs out).2 ix) = lhs2 at hlab2
  have hnd2 : lhs2.Nodup := hl2 ▸ hnd1.filter _
  have hmem2 : ∀ j, j ∈ lhs2 ↔ j ∈ out := by
    intro j
    rw [← hl2, List.mem_filter, hmem1]
    simp only [has, Bool.not_eq_eq_eq_not, Bool.not_true, List.contains_eq_mem,
      decide_eq_false_iff_not, hnsm, not_and, not_not]
    exact ⟨fun h => h.2 h.1, fun h => ⟨hsub j h, fun _ => h⟩⟩
  -- transpose
  simp only [parseSingle, hdl, hl2]
  by_cases heq : lhs2 = out
  · refine ⟨_, y2, by rw [if_pos heq], ?_, heq ▸ hlab2⟩
    simp only [evalSingle, hstage1, Option.bind_some, hy2]
    rfl
  · have hall : out.all (has lhs2) = true := by
      simp only [List.all_eq_true, has, List.contains_iff_mem]
      exact fun o ho => (hmem2 o).2 ho
    obtain ⟨y3, hy3, hlab3⟩ := lab_transpose hlab2 hnd2 hout (fun o ho => (hmem2 o).2 ho)
      (fun i hi => (hmem2 i).1 hi)
    refine ⟨_, y3, by rw [if_neg heq, if_pos hall], ?_, hlab3⟩
    simp only [evalSingle, hstage1, Option.bind_some, hy2]
    exact hy3

end Cotengra.Bmm
