import CotengraVerif.Lemmas.StripLemmas

/-!
  The loop invariant of the stripped contraction loop (`runStrip`, Model/Strip.lean) against the
  plain loop (`runPlain`) on the same program: the plain dictionary of live intermediates is the
  stripped one, entry by entry scaled by `c key`, and the product of the scales of the live
  entries is the product of the factors divided out so far.
-/
namespace Cotengra.Strip

set_option linter.unusedSectionVars false

variable {α : Type} [Field α] [LinearOrder α] [IsStrictOrderedRing α]

def keys (t : Temps α) : List Nat := t.map (·.1)

/-- the stripped dictionary with every entry scaled by `c key` -/
def mapScale (c : Nat → α) (S : Temps α) : Temps α := S.map fun ks => (ks.1, scale (c ks.1) ks.2)

theorem keys_mapScale (c : Nat → α) (S : Temps α) : keys (mapScale c S) = keys S := by
  unfold keys mapScale
  simp [List.map_map, Function.comp]

theorem get_mapScale (c : Nat → α) (S : Temps α) (k : Nat) :
    (mapScale c S).get? k = (S.get? k).map (scale (c k)) := by
  unfold Temps.get? mapScale
  induction S with
  | nil => simp
  | cons kv rest ih =>
    obtain ⟨k', v⟩ := kv
    simp only [List.map_cons, List.lookup_cons]
    by_cases h : k = k'
    · subst h; simp
    · have : (k == k') = false := by simpa using h
      simp only [this]
      exact ih

theorem erase_mapScale (c : Nat → α) (S : Temps α) (k : Nat) :
    (mapScale c S).erase k = mapScale c (S.erase k) := by
  unfold Temps.erase mapScale
  rw [List.filter_map]
  rfl

theorem mapScale_congr (c c' : Nat → α) (S : Temps α) (h : ∀ k ∈ keys S, c k = c' k) :
    mapScale c S = mapScale c' S := by
  unfold mapScale
  apply List.map_congr_left
  intro kv hkv
  have : kv.1 ∈ keys S := List.mem_map_of_mem hkv
  rw [h _ this]

theorem keys_erase (S : Temps α) (k : Nat) : keys (S.erase k) = (keys S).filter (· != k) := by
  unfold keys Temps.erase
  rw [List.filter_map]
  rfl

theorem keys_set (S : Temps α) (k : Nat) (v : Tensor α) :
    keys (S.set k v) = k :: (keys S).filter (· != k) := by
  unfold Temps.set
  show k :: keys (S.erase k) = _
  rw [keys_erase]

theorem mem_keys_of_get (S : Temps α) (k : Nat) (v : Tensor α) (h : S.get? k = some v) :
    k ∈ keys S := by
  unfold Temps.get? at h
  unfold keys
  induction S with
  | nil => simp at h
  | cons kv rest ih =>
    obtain ⟨k', v'⟩ := kv
    simp only [List.lookup_cons] at h
    by_cases hk : k = k'
    · subst hk; simp
    · have : (k == k') = false := by simpa using hk
      simp only [this] at h
      simp only [List.map_cons, List.mem_cons]
      exact Or.inr (ih h)

/-- product over a duplicate-free key list, split at a member -/
theorem prod_split (c : Nat → α) (ks : List Nat) (k : Nat) (hnd : ks.Nodup) (hk : k ∈ ks) :
    (ks.map c).prod = c k * ((ks.filter (· != k)).map c).prod := by
  induction ks with
  | nil => cases hk
  | cons a rest ih =>
    have hnd' := List.nodup_cons.1 hnd
    by_cases ha : a = k
    · subst ha
      have : rest.filter (· != a) = rest := by
        apply List.filter_eq_self.2
        intro x hx
        have : x ≠ a := fun e => hnd'.1 (e ▸ hx)
        simpa using this
      simp [List.filter_cons, this]
    · have hk' : k ∈ rest := by
        rcases List.mem_cons.1 hk with h | h
        · exact absurd h.symm ha
        · exact h
      have : (a != k) = true := by simpa using ha
      simp only [List.filter_cons, this, if_true, List.map_cons, List.prod_cons]
      rw [ih hnd'.2 hk']
      ring

theorem filter_ne_of_not_mem (ks : List Nat) (k : Nat) (h : k ∉ ks) : ks.filter (· != k) = ks := by
  apply List.filter_eq_self.2
  intro x hx
  have : x ≠ k := fun e => h (e ▸ hx)
  simpa using this

/-! ## well-formed programs: every key is consumed once, new keys are fresh -/

/-- the key a pairwise step writes is not live (it is a *new* intermediate: in the real loop the
    key is the parent node, a strictly larger leaf set than any live node below it) -/
def Fresh (ks : List Nat) : Step → Prop
  | .pre _ _ => True
  | .pair p l r _ => p ∉ (ks.filter (· != l)).filter (· != r)

def WF : List Step → List Nat → Prop
  | [], _ => True
  | st :: rest, ks => Fresh ks st ∧ WF rest (keysStep ks st)

theorem wf_of_wfB : ∀ (steps : List Step) (ks : List Nat), wfB steps ks = true → WF steps ks := by
  intro steps
  induction steps with
  | nil => intro _ _; trivial
  | cons st rest ih =>
    intro ks h
    simp only [wfB, Bool.and_eq_true] at h
    refine ⟨?_, ih _ h.2⟩
    cases st with
    | pre _ _ => trivial
    | pair p l r out =>
      have := h.1
      simp only [Bool.not_eq_true', List.contains_eq_mem, decide_eq_false_iff_not] at this
      exact this

/-- the invariant -/
structure Inv (c : Nat → α) (P : Temps α) (S : SState α) : Prop where
  rel : P = mapScale c S.temps
  nodup : (keys S.temps).Nodup
  acc : ((keys S.temps).map c).prod = S.factors.prod
  pos : ∀ f ∈ S.factors, 0 < f
  ok : S.zero = false ∧ S.nan = false

theorem step_flags_mono (size : Ix → Nat) (cz : Bool) (S S' : SState α) (st : Step)
    (h : stepStrip size cz S st = some S') (hbad : S.zero = true ∨ S.nan = true) : S' = S := by
  have hb : (S.zero || S.nan) = true := by
    rcases hbad with h | h <;> simp [h]
  cases st <;> simp [stepStrip, hb] at h <;> exact h.symm

/-- one step preserves the invariant (as long as the step does not meet a zero factor) -/
theorem step_inv (size : Ix → Nat) (cz : Bool) (c : Nat → α) (P : Temps α) (S S' : SState α)
    (st : Step) (hinv : Inv c P S) (hfresh : Fresh (keys S.temps) st)
    (h : stepStrip size cz S st = some S') (hok' : S'.zero = false ∧ S'.nan = false) :
    ∃ c' P', stepPlain size P st = some P' ∧ Inv c' P' S' ∧ keys S'.temps = keysStep (keys S.temps) st := by
  obtain ⟨hrel, hnd, hacc, hpos, hz, hn⟩ := hinv
  have hflags : (S.zero || S.nan) = false := by simp [hz, hn]
  cases st with
  | pre i out =>
    simp only [stepStrip, hflags, Bool.false_eq_true, if_false] at h
    cases hx : S.temps.get? i with
    | none => simp [hx] at h
    | some x =>
      simp only [hx, Option.bind_eq_bind, Option.bind_some, Option.pure_def, Option.some.injEq] at h
      subst h
      refine ⟨c, (mapScale c S.temps).set i (reduce1 size (scale (c i) x) out), ?_, ?_, ?_⟩
      · simp only [stepPlain, hrel, get_mapScale, hx, Option.map_some, Option.bind_eq_bind,
          Option.bind_some, Option.pure_def]
      · have hmem : i ∈ keys S.temps := mem_keys_of_get _ _ _ hx
        refine ⟨?_, ?_, ?_, hpos, hz, hn⟩
        · simp only [Temps.set, erase_mapScale, reduce1_scale]
          rfl
        · simp only [keys_set]
          refine List.nodup_cons.2 ⟨?_, hnd.filter _⟩
          simp
        · simp only [keys_set, List.map_cons, List.prod_cons]
          rw [← prod_split c _ i hnd hmem]
          exact hacc
      · simp only [keys_set, keysStep]
  | pair p l r out =>
    simp only [stepStrip, hflags, Bool.false_eq_true, if_false] at h
    cases ha : S.temps.get? l with
    | none => simp [ha] at h
    | some a =>
      simp only [ha, Option.bind_eq_bind, Option.bind_some] at h
      cases hb : (S.temps.erase l).get? r with
      | none => simp [hb] at h
      | some b =>
        simp only [hb, Option.bind_some] at h
        by_cases hf : maxAbs (contract size a b out).data = 0
        · -- a zero factor: the step sets `zero` or `nan`, excluded by `hok'`
          simp only [hf, decide_true, if_true] at h
          cases cz
          · simp only [Bool.false_eq_true, if_false, Option.pure_def, Option.some.injEq] at h
            subst h
            simp at hok'
          · simp only [if_true, Option.pure_def, Option.some.injEq] at h
            subst h
            simp at hok'
        · simp only [hf, decide_false, Bool.false_eq_true, if_false, Option.pure_def,
            Option.some.injEq] at h
          subst h
          -- abbreviations
          have hl : l ∈ keys S.temps := mem_keys_of_get _ _ _ ha
          have hr : r ∈ keys (S.temps.erase l) := mem_keys_of_get _ _ _ hb
          have hnd1 : (keys (S.temps.erase l)).Nodup := by rw [keys_erase]; exact hnd.filter _
          have hnd2 : (keys ((S.temps.erase l).erase r)).Nodup := by rw [keys_erase]; exact hnd1.filter _
          have hfr : p ∉ keys ((S.temps.erase l).erase r) := by
            rw [keys_erase, keys_erase]; exact hfresh
          let f := maxAbs (contract size a b out).data
          let c' : Nat → α := fun k => if k = p then c l * c r * f else c k
          have hc' : ∀ k ∈ keys ((S.temps.erase l).erase r), c k = c' k := by
            intro k hk
            have : k ≠ p := fun e => hfr (e ▸ hk)
            simp [c', this]
          have hfpos : 0 < f := lt_of_le_of_ne (maxAbs_nonneg _) (Ne.symm hf)
          refine ⟨c', (((mapScale c S.temps).erase l).erase r).set p
              (contract size (scale (c l) a) (scale (c r) b) out), ?_, ?_, ?_⟩
          · simp only [stepPlain, hrel, get_mapScale, ha, Option.map_some, Option.bind_eq_bind,
              Option.bind_some, erase_mapScale, hb, Option.pure_def]
          · refine ⟨?_, ?_, ?_, ?_, hz, hn⟩
            · -- rel
              simp only [Temps.set, erase_mapScale]
              have e1 : ((S.temps.erase l).erase r).erase p = (S.temps.erase l).erase r := by
                unfold Temps.erase
                apply List.filter_eq_self.2
                intro kv hkv
                have hk : kv.1 ∈ keys ((S.temps.erase l).erase r) := List.mem_map_of_mem hkv
                have : kv.1 ≠ p := fun e => hfr (e ▸ hk)
                simpa using this
              rw [e1]
              show _ = (p, scale (c' p) _) :: mapScale c' _
              rw [← mapScale_congr c c' _ hc']
              congr 1
              have : c' p = c l * c r * f := by simp [c']
              rw [this, contract_scale, ← scale_scale (c l * c r) f, scale_normalised f hf]
            · -- nodup
              simp only [keys_set]
              refine List.nodup_cons.2 ⟨by simp, hnd2.filter _⟩
            · -- accounting
              simp only [keys_set, List.map_cons, List.prod_cons, List.prod_append, List.map_append,
                List.prod_singleton]
              rw [filter_ne_of_not_mem _ _ hfr]
              have hc'p : c' p = c l * c r * f := by simp [c']
              have e2 : ((keys ((S.temps.erase l).erase r)).map c') =
                  ((keys ((S.temps.erase l).erase r)).map c) := by
                apply List.map_congr_left
                intro k hk
                exact (hc' k hk).symm
              rw [e2, hc'p, ← hacc, prod_split c _ l hnd hl, ← keys_erase,
                prod_split c _ r hnd1 hr, ← keys_erase]
              simp only [List.prod_nil, mul_one, f]
              ring
            · intro g hg
              rcases List.mem_append.1 hg with hg | hg
              · exact hpos g hg
              · simp only [List.mem_singleton] at hg
                subst hg; exact hfpos
          · simp only [keys_set, keysStep, keys_erase]

/-- the invariant along a whole program -/
theorem run_inv (size : Ix → Nat) (cz : Bool) : ∀ (steps : List Step) (c : Nat → α) (P : Temps α)
    (S S' : SState α), Inv c P S → WF steps (keys S.temps) →
    runStrip size cz steps S = some S' → S'.zero = false ∧ S'.nan = false →
    ∃ c' P', runPlain size steps P = some P' ∧ Inv c' P' S' := by
  intro steps
  induction steps with
  | nil =>
    intro c P S S' hinv _ h _
    simp only [runStrip, Option.some.injEq] at h
    subst h
    exact ⟨c, P, rfl, hinv⟩
  | cons st rest ih =>
    intro c P S S' hinv hwf h hok'
    simp only [runStrip] at h
    cases h1 : stepStrip size cz S st with
    | none => simp [h1] at h
    | some S1 =>
      simp only [h1, Option.bind_some] at h
      -- the intermediate state is still ok, otherwise the flags would persist to the end
      have hok1 : S1.zero = false ∧ S1.nan = false := by
        by_contra hbad
        have hbad' : S1.zero = true ∨ S1.nan = true := by
          by_cases hz : S1.zero = true
          · exact Or.inl hz
          · right
            by_contra hn
            exact hbad ⟨by simpa using hz, by simpa using hn⟩
        have : ∀ (l : List Step) (T : SState α), runStrip size cz l S1 = some T → T = S1 := by
          intro l
          induction l with
          | nil => intro T hT; simp only [runStrip, Option.some.injEq] at hT; exact hT.symm
          | cons s l ihl =>
            intro T hT
            simp only [runStrip] at hT
            cases h2 : stepStrip size cz S1 s with
            | none => simp [h2] at hT
            | some S2 =>
              simp only [h2, Option.bind_some] at hT
              have := step_flags_mono size cz S1 S2 s h2 hbad'
              subst this
              exact ihl T hT
        have hS' := this rest S' h
        subst hS'
        rcases hbad' with hz | hn
        · rw [hz] at hok'; exact Bool.noConfusion hok'.1
        · rw [hn] at hok'; exact Bool.noConfusion hok'.2
      obtain ⟨c1, P1, hp1, hinv1, hk1⟩ := step_inv size cz c P S S1 st hinv hwf.1 h1 hok1
      have hwf1 : WF rest (keys S1.temps) := by rw [hk1]; exact hwf.2
      obtain ⟨c2, P2, hp2, hinv2⟩ := ih c1 P1 S1 S' hinv1 hwf1 h hok'
      refine ⟨c2, P2, ?_, hinv2⟩
      simp only [runPlain, hp1, Option.bind_some, hp2]

end Cotengra.Strip
