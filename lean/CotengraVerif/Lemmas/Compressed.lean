import CotengraVerif.Lemmas.HyperGraphForest
import Mathlib.Algebra.Order.BigOperators.Group.List

/-!
  Lemmas for C20: the hypergraph's *shape* (nodes, edges, output, counter) evolves independently
  of the size dictionary, sizes are monotone in the cap, and the tracker's `write` / `max_size`
  are folds of the per-step contracted sizes.
-/
namespace Cotengra
open AL HGu

namespace HG

/-- same hypergraph with another size dictionary -/
def reSize (h : HG) (sd : List (Ix × Nat)) : HG := { h with sizeDict := sd }

theorem removeNode_reSize (h : HG) (sd : List (Ix × Nat)) (i : Nat) :
    (h.reSize sd).removeNode i = (h.removeNode i).map (fun p => (p.1, p.2.reSize sd)) := by
  unfold removeNode reSize
  simp only
  cases get? h.nodes i with
  | none => rfl
  | some inds =>
    simp only
    cases List.foldl (removeNodeStep i) (some h.edges) inds with
    | none => rfl
    | some ed => rfl

theorem addNode_reSize (h : HG) (sd : List (Ix × Nat)) (inds : List Ix) :
    (h.reSize sd).addNode inds = ((h.addNode inds).1, (h.addNode inds).2.reSize sd) := rfl

theorem contract_reSize (h : HG) (sd : List (Ix × Nat)) (i j : Nat) :
    (h.reSize sd).contract i j = (h.contract i j).map (fun p => (p.1, p.2.reSize sd)) := by
  unfold contract
  rw [removeNode_reSize]
  cases h.removeNode i with
  | none => rfl
  | some p =>
    simp only [Option.map_some]
    rw [removeNode_reSize]
    cases p.2.removeNode j with
    | none => rfl
    | some q =>
      simp only [Option.map_some]
      rfl

theorem removeEdge_reSize (h : HG) (sd : List (Ix × Nat)) (e : Ix) :
    (h.reSize sd).removeEdge e = (h.removeEdge e).reSize sd := rfl

theorem foldl_removeEdge_reSize (es : List Ix) (h : HG) (sd : List (Ix × Nat)) :
    es.foldl removeEdge (h.reSize sd) = (es.foldl removeEdge h).reSize sd := by
  induction es generalizing h with
  | nil => rfl
  | cons e t ih => simp only [List.foldl_cons, removeEdge_reSize, ih]

theorem groupByIncidence_reSize (h : HG) (sd : List (Ix × Nat)) (es : List Ix) :
    (h.reSize sd).groupByIncidence es = h.groupByIncidence es := rfl

/-- same shape, pointwise smaller sizes -/
structure Le (a b : HG) : Prop where
  shape : b = a.reSize b.sizeDict
  size : ∀ e, a.size e ≤ b.size e

theorem le_refl (a : HG) : Le a a := ⟨rfl, fun _ => Nat.le_refl _⟩

theorem foldl_mul_le (l : List Ix) (f g : Ix → Nat) (h : ∀ e, f e ≤ g e) (x y : Nat) (hxy : x ≤ y) :
    (l.map f).foldl (· * ·) x ≤ (l.map g).foldl (· * ·) y := by
  induction l generalizing x y with
  | nil => exact hxy
  | cons a t ih =>
    simp only [List.map_cons, List.foldl_cons]
    exact ih _ _ (Nat.mul_le_mul hxy (h a))

theorem edgesSize_le (a b : HG) (h : ∀ e, a.size e ≤ b.size e) (es : List Ix) :
    a.edgesSize es ≤ b.edgesSize es :=
  foldl_mul_le es a.size b.size h 1 1 (Nat.le_refl _)

theorem getNode_reSize (h : HG) (sd : List (Ix × Nat)) (k : Nat) : (h.reSize sd).getNode k = h.getNode k := rfl

theorem nodeSize_le (a b : HG) (hle : Le a b) (k : Nat) : a.nodeSize k ≤ b.nodeSize k := by
  unfold nodeSize
  rw [hle.shape, getNode_reSize]
  have : ∀ e, a.size e ≤ (a.reSize b.sizeDict).size e := by
    intro e
    have := hle.size e
    rw [hle.shape] at this
    exact this
  exact edgesSize_le a _ this _

theorem le_contract (a b : HG) (hle : Le a b) (i j k : Nat) (a' : HG) (h : a.contract i j = some (k, a')) :
    ∃ b', b.contract i j = some (k, b') ∧ Le a' b' := by
  refine ⟨a'.reSize b.sizeDict, ?_, ?_, ?_⟩
  · rw [hle.shape, contract_reSize, h]; rfl
  · rfl
  · -- `contract` never touches the size dictionary
    have hsd : a'.sizeDict = a.sizeDict := by
      unfold contract at h
      cases h1 : a.removeNode i with
      | none => rw [h1] at h; cases h
      | some p =>
        rw [h1] at h
        simp only at h
        cases h2 : p.2.removeNode j with
        | none => rw [h2] at h; cases h
        | some q =>
          rw [h2] at h
          simp only [Option.some.injEq] at h
          have e1 : p.2.sizeDict = a.sizeDict := by
            unfold removeNode at h1
            cases g : get? a.nodes i with
            | none => rw [g] at h1; cases h1
            | some inds =>
              rw [g] at h1; simp only at h1
              cases f : List.foldl (removeNodeStep i) (some a.edges) inds with
              | none => rw [f] at h1; cases h1
              | some ed => rw [f] at h1; simp only [Option.some.injEq] at h1; rw [← h1]
          have e2 : q.2.sizeDict = p.2.sizeDict := by
            unfold removeNode at h2
            cases g : get? p.2.nodes j with
            | none => rw [g] at h2; cases h2
            | some inds =>
              rw [g] at h2; simp only at h2
              cases f : List.foldl (removeNodeStep j) (some p.2.edges) inds with
              | none => rw [f] at h2; cases h2
              | some ed => rw [f] at h2; simp only [Option.some.injEq] at h2; rw [← h2]
          have e3 := congrArg Prod.snd h
          simp only at e3
          rw [← e3]
          show q.2.sizeDict = _
          rw [e2, e1]
    intro e
    show a'.size e ≤ (a'.reSize b.sizeDict).size e
    unfold size reSize
    simp only
    rw [hsd]
    have := hle.size e
    unfold size at this
    exact this

/-- the body of the loop of `compress` for one group -/
def mergeGroup (chi : Nat) (h : HG) (g : List Nat × List Ix) : HG :=
  match g.2 with
  | keep :: d :: ds =>
    let newSize := h.edgesSize g.2
    let h' := (d :: ds).foldl removeEdge h
    { h' with sizeDict := set h'.sizeDict keep (min newSize chi) }
  | _ => h

theorem compress_eq (h : HG) (chi : Nat) (es : List Ix) :
    h.compress chi es = (h.groupByIncidence (dedup es)).foldl (mergeGroup chi) h := rfl

theorem size_set (h : HG) (k v : Nat) (e : Ix) :
    ({ h with sizeDict := set h.sizeDict k v } : HG).size e = if k = e then v else h.size e := by
  unfold size
  simp only
  rw [get?_set]
  by_cases hk : k = e <;> simp [hk]

theorem removeEdges_size (es : List Ix) (h : HG) (e : Ix) : (es.foldl removeEdge h).size e = h.size e := by
  induction es generalizing h with
  | nil => rfl
  | cons x t ih => simp only [List.foldl_cons]; rw [ih]; rfl

theorem le_mergeGroup (a b : HG) (hle : Le a b) (c1 c2 : Nat) (hc : c1 ≤ c2) (g : List Nat × List Ix) :
    Le (mergeGroup c1 a g) (mergeGroup c2 b g) := by
  unfold mergeGroup
  split
  · rename_i keep d ds _
    constructor
    · show _ = _
      rw [hle.shape, foldl_removeEdge_reSize]
      rfl
    · intro e
      rw [size_set, size_set]
      split
      · exact min_le_min (edgesSize_le a b hle.size _) hc
      · rw [removeEdges_size, removeEdges_size]; exact hle.size e
  · exact hle

theorem le_compress (a b : HG) (hle : Le a b) (c1 c2 : Nat) (hc : c1 ≤ c2) (es : List Ix) :
    Le (a.compress c1 es) (b.compress c2 es) := by
  rw [compress_eq, compress_eq]
  have hg : b.groupByIncidence (dedup es) = a.groupByIncidence (dedup es) := by
    rw [hle.shape]; rfl
  rw [hg]
  clear hg
  generalize a.groupByIncidence (dedup es) = gs
  induction gs generalizing a b with
  | nil => exact hle
  | cons g t ih =>
    simp only [List.foldl_cons]
    exact ih _ _ (le_mergeGroup a b hle c1 c2 hc g)

theorem getNode_of_le (a b : HG) (hle : Le a b) (k : Nat) : b.getNode k = a.getNode k := by
  rw [hle.shape]; rfl

theorem le_preHG (a b : HG) (hle : Le a b) (c1 c2 : Nat) (hc : c1 ≤ c2) (late : Bool) (li ri : Nat) :
    Le (preHG c1 late a li ri) (preHG c2 late b li ri) := by
  unfold preHG
  cases late
  · exact hle
  · simp only [if_true]
    have h1 := le_compress a b hle c1 c2 hc (a.getNode li)
    rw [getNode_of_le a b hle li]
    have h2 := le_compress _ _ h1 c1 c2 hc ((a.compress c1 (a.getNode li)).getNode ri)
    rw [getNode_of_le _ _ h1 ri]
    exact h2

theorem le_postHG (a b : HG) (hle : Le a b) (c1 c2 : Nat) (hc : c1 ≤ c2) (late : Bool) (pi : Nat) :
    Le (postHG c1 late a pi) (postHG c2 late b pi) := by
  unfold postHG
  cases late
  · simp only [Bool.false_eq_true, if_false]
    rw [getNode_of_le a b hle pi]
    exact le_compress a b hle c1 c2 hc _
  · exact hle

end HG

/-! ### the tracker's write and max_size -/

theorem postStep_write (t : Tracker) : t.postStep.write = t.write + t.contractedSize := rfl
theorem postStep_maxSize (t : Tracker) : t.postStep.maxSize = max t.maxSize t.contractedSize := rfl

/-- what one step does to `write` and `max_size`: it adds / maxes in the size of the node just
    created, read right after the contraction -/
theorem statsStep_totals (chi : Nat) (late : Bool) (h : HG) (tr : Tracker) (lr : Nat × Nat)
    (h' : HG) (tr' : Tracker) (hs : HG.statsStep chi late (some (h, tr)) lr = some (h', tr')) :
    ∃ pi h2, (HG.preHG chi late h lr.1 lr.2).contract lr.1 lr.2 = some (pi, h2) ∧
      h' = HG.postHG chi late h2 pi ∧
      tr'.write = tr.write + h2.nodeSize pi ∧ tr'.maxSize = max tr.maxSize (h2.nodeSize pi) := by
  unfold HG.statsStep at hs
  simp only at hs
  cases hc : (HG.preHG chi late h lr.1 lr.2).contract lr.1 lr.2 with
  | none => rw [hc] at hs; cases hs
  | some p =>
    obtain ⟨pi, h2⟩ := p
    rw [hc] at hs
    simp only [Option.some.injEq, Prod.mk.injEq] at hs
    obtain ⟨e1, e2⟩ := hs
    refine ⟨pi, h2, rfl, e1.symm, ?_, ?_⟩
    · rw [← e2, postStep_write]
      unfold HG.postTr HG.preTr
      cases late <;> rfl
    · rw [← e2, postStep_maxSize]
      unfold HG.postTr HG.preTr
      cases late <;> rfl


/-- what one step does to `flops`: the pair cost plus the QR terms of the compression branch taken -/
theorem statsStep_flops (chi : Nat) (late : Bool) (h : HG) (tr : Tracker) (lr : Nat × Nat)
    (h' : HG) (tr' : Tracker) (hs : HG.statsStep chi late (some (h, tr)) lr = some (h', tr'))
    (pi : Nat) (h2 : HG) (hc : (HG.preHG chi late h lr.1 lr.2).contract lr.1 lr.2 = some (pi, h2)) :
    tr'.flops = tr.flops +
      ((if late then h.neighborhoodCompressCost tr.chi [lr.1, lr.2] else 0) +
       (HG.preHG chi late h lr.1 lr.2).contractPairCost lr.1 lr.2 +
       (if late then 0 else h2.neighborhoodCompressCost tr.chi [pi])) := by
  unfold HG.statsStep at hs
  simp only at hs
  rw [hc] at hs
  simp only [Option.some.injEq, Prod.mk.injEq] at hs
  obtain ⟨_, e2⟩ := hs
  rw [← e2]
  unfold HG.postTr HG.preTr
  cases late
  · simp [Tracker.postStep, Tracker.postCompress, Tracker.preCompress, Tracker.postContract,
      Tracker.preContract, Tracker.preStep]
  · simp [Tracker.postStep, Tracker.postCompress, Tracker.preCompress, Tracker.postContract,
      Tracker.preContract, Tracker.preStep]

theorem runPath_append (p q : List (Nat × Nat)) (st : HG × Forest) :
    runPath (p ++ q) st = (runPath p st).bind (runPath q) := by
  induction p generalizing st with
  | nil => rfl
  | cons ij rest ih =>
    obtain ⟨i, j⟩ := ij
    obtain ⟨h, F⟩ := st
    simp only [List.cons_append, runPath]
    split
    · rfl
    · split
      · rfl
      · split
        · rfl
        · exact ih _

end Cotengra
