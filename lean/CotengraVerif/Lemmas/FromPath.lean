import CotengraVerif.Lemmas.RoundTrip

/-!
  `from_path(path=ssa_to_linear(p)) = from_path(ssa_path=p)` for every valid SSA path `p`
  (steps of one or two ids): converting a path does not change the tree it denotes.
-/
namespace Cotengra.Paths
open Cotengra

theorem popMany_map {α β : Type} (f : α → β) (l : List α) (cs : List Nat) :
    popMany (l.map f) cs = (popMany l cs).map (fun p => (p.1.map f, p.2.map f)) := by
  induction cs generalizing l with
  | nil => simp [popMany]
  | cons c cs ih =>
    unfold popMany
    rw [List.getElem?_map]
    cases hc : l[c]? with
    | none => simp
    | some x =>
      simp only [Option.map_some]
      have : (l.map f).eraseIdx c = (l.eraseIdx c).map f := by
        rw [List.eraseIdx_map]
      rw [this, ih]
      cases popMany (l.eraseIdx c) cs with
      | none => simp
      | some p => simp

theorem popMany_sublist {α : Type} (l : List α) (cs : List Nat) (P l' : List α)
    (h : popMany l cs = some (P, l')) : l'.Sublist l ∧ ∀ x ∈ P, x ∈ l := by
  induction cs generalizing l P l' with
  | nil =>
    simp only [popMany, Option.some.injEq, Prod.mk.injEq] at h
    obtain ⟨rfl, rfl⟩ := h
    exact ⟨List.Sublist.refl _, by simp⟩
  | cons c cs ih =>
    unfold popMany at h
    cases hc : l[c]? with
    | none => simp [hc] at h
    | some x =>
      simp only [hc] at h
      cases hr : popMany (l.eraseIdx c) cs with
      | none => simp [hr] at h
      | some p =>
        obtain ⟨P', l''⟩ := p
        simp only [hr, Option.some.injEq, Prod.mk.injEq] at h
        obtain ⟨rfl, rfl⟩ := h
        obtain ⟨h1, h2⟩ := ih _ _ _ hr
        refine ⟨h1.trans (List.eraseIdx_sublist _ _), ?_⟩
        intro y hy
        rcases List.mem_cons.1 hy with rfl | hy
        · exact List.mem_of_getElem? hc
        · exact (List.eraseIdx_sublist _ _).subset (h2 y hy)

/-- a sublist with duplicate-free keys is determined by its keys -/
theorem sublist_eq_filter {β : Type} (l l' : List (Nat × β)) (p : Nat → Bool) (hs : l'.Sublist l)
    (hn : (l.map (·.1)).Nodup) (hk : l'.map (·.1) = (l.map (·.1)).filter p) :
    l' = l.filter (fun kv => p kv.1) := by
  induction hs with
  | slnil => rfl
  | @cons l₁ l₂ a hs ih =>
    simp only [List.map_cons, List.nodup_cons] at hn
    by_cases hp : p a.1 = true
    · exfalso
      simp only [List.map_cons, List.filter_cons, hp, if_true] at hk
      have : a.1 ∈ l₁.map (·.1) := by rw [hk]; simp
      exact hn.1 ((hs.map _).subset this)
    · simp only [List.map_cons, List.filter_cons, hp, Bool.false_eq_true, if_false] at hk ⊢
      exact ih hn.2 hk
  | @cons_cons l₁ l₂ a hs ih =>
    simp only [List.map_cons, List.nodup_cons] at hn
    by_cases hp : p a.1 = true
    · simp only [List.map_cons, List.filter_cons, hp, if_true, List.cons.injEq, true_and] at hk ⊢
      exact ih hn.2 hk
    · exfalso
      simp only [List.map_cons, List.filter_cons, hp, Bool.false_eq_true, if_false] at hk
      have : a.1 ∈ (l₂.map (·.1)).filter p := by rw [← hk]; simp
      exact hn.1 (List.mem_filter.1 this).1

def nodeOf (Z : List (Nat × List Nat)) (i : Nat) : List Nat := (Z.lookup i).getD []

theorem lookup_of_mem (Z : List (Nat × List Nat)) (hn : (Z.map (·.1)).Nodup) (kv : Nat × List Nat)
    (h : kv ∈ Z) : Z.lookup kv.1 = some kv.2 := by
  induction Z with
  | nil => simp at h
  | cons a t ih =>
    simp only [List.map_cons, List.nodup_cons] at hn
    rcases List.mem_cons.1 h with rfl | h'
    · simp [List.lookup]
    · have hne : kv.1 ≠ a.1 := fun e => hn.1 (e ▸ List.mem_map.2 ⟨kv, h', rfl⟩)
      have : (kv.1 == a.1) = false := by simpa using hne
      obtain ⟨a1, a2⟩ := a
      simp only [List.lookup, this]
      exact ih hn.2 h'

theorem lookup_filter_ne (Z : List (Nat × List Nat)) (i j : Nat) (h : j ≠ i) :
    (Z.filter (fun kv => kv.1 != i)).lookup j = Z.lookup j := by
  induction Z with
  | nil => rfl
  | cons a t ih =>
    obtain ⟨a1, a2⟩ := a
    by_cases ha : a1 = i
    · subst ha
      have h1 : (j == a1) = false := by simpa using h
      simp [List.lookup, h1, ih]
    · have h2 : (a1 != i) = true := by simpa using ha
      simp only [List.filter_cons, h2, if_true, List.lookup]
      cases (j == a1) <;> simp [ih]

/-- popping the ids of a step from the dict -/
theorem dictPopMany_spec (scon : List Nat) : ∀ (Z : List (Nat × List Nat)),
    scon.Nodup → (∀ s ∈ scon, s ∈ Z.map (·.1)) →
    dictPopMany Z scon = some (scon.map (nodeOf Z), Z.filter (fun kv => !scon.contains kv.1)) := by
  induction scon with
  | nil => intro Z _ _; simp [dictPopMany]
  | cons i rest ih =>
    intro Z hnd hin
    have hnd' := List.nodup_cons.1 hnd
    have hi := hin i List.mem_cons_self
    obtain ⟨kv, hkv, hk⟩ := List.mem_map.1 hi
    have hlook : ∃ v, Z.lookup i = some v := by
      clear ih hin hnd hnd' hi
      induction Z with
      | nil => simp at hkv
      | cons a t iht =>
        obtain ⟨a1, a2⟩ := a
        by_cases h : i = a1
        · subst h; exact ⟨a2, by simp [List.lookup]⟩
        · have : (i == a1) = false := by simpa using h
          rcases List.mem_cons.1 hkv with e | h'
          · exfalso; apply h; rw [← hk, e]
          · obtain ⟨v, hv⟩ := iht h'
            exact ⟨v, by simp [List.lookup, this, hv]⟩
    obtain ⟨v, hv⟩ := hlook
    have hrest := ih (Z.filter (fun kv => kv.1 != i)) hnd'.2 (by
      intro s hs
      have hsZ := hin s (List.mem_cons_of_mem _ hs)
      obtain ⟨kv', hkv', hk'⟩ := List.mem_map.1 hsZ
      refine List.mem_map.2 ⟨kv', List.mem_filter.2 ⟨hkv', ?_⟩, hk'⟩
      have : s ≠ i := fun e => hnd'.1 (e ▸ hs)
      simpa [hk'] using this)
    simp only [dictPopMany, dictPop, hv, hrest, List.map_cons, Option.some.injEq, Prod.mk.injEq,
      List.cons.injEq]
    refine ⟨⟨by simp [nodeOf, hv], ?_⟩, ?_⟩
    · apply List.map_congr_left
      intro s hs
      have : s ≠ i := fun e => hnd'.1 (e ▸ hs)
      simp [nodeOf, lookup_filter_ne Z i s this]
    · rw [List.filter_filter]
      apply List.filter_congr
      intro kv _
      simp only [List.contains_cons, Bool.not_or, bne, Bool.and_comm]

theorem mergeNodes_perm (l₁ l₂ : List (List Nat)) (h : l₁.Perm l₂) : mergeNodes l₁ = mergeNodes l₂ := by
  have hl := h.length_eq
  match l₁, l₂, hl with
  | [], [], _ => rfl
  | [x], [y], _ =>
    have := h.mem_iff (a := x)
    simp only [List.mem_singleton, true_iff] at this
    subst this; rfl
  | [x, y], [u, v], _ =>
    have hx : x = u ∧ y = v ∨ x = v ∧ y = u := by
      have h1 := (h.mem_iff (a := x)).1 (by simp)
      have h2 := (h.mem_iff (a := y)).1 (by simp)
      have h3 := (h.mem_iff (a := u)).2 (by simp)
      have h4 := (h.mem_iff (a := v)).2 (by simp)
      simp only [List.mem_cons, List.not_mem_nil, or_false] at h1 h2 h3 h4
      by_cases e : x = u
      · subst e
        have := (List.perm_cons x).1 h
        have := this.mem_iff (a := y)
        simp only [List.mem_singleton, true_iff] at this
        exact Or.inl ⟨rfl, this⟩
      · rcases h1 with h1 | h1
        · exact absurd h1 e
        · subst h1
          right
          refine ⟨rfl, ?_⟩
          have hp : [x, y].Perm [x, u] := h.trans (List.Perm.swap _ _ _)
          have := ((List.perm_cons x).1 hp).mem_iff (a := y)
          simp only [List.mem_singleton, true_iff] at this
          exact this
    rcases hx with ⟨rfl, rfl⟩ | ⟨rfl, rfl⟩
    · rfl
    · simp only [mergeNodes]
      rw [sortAsc_of_perm List.perm_append_comm]
  | _ :: _ :: _ :: _, _ :: _ :: _ :: _, _ => rfl

/-- one step of `ssa_to_linear`: the positions popped, the ids popped and the ids left -/
theorem ssaToLinear_step (ids : List Nat) (ssa : Nat) (hok : IdsOK ids ssa) (scon : List Nat)
    (hnd : scon.Nodup) (hin : ∀ s ∈ scon, s ∈ ids) :
    DescIn ids.length (sortAsc (scon.map (bisectLeft ids))).reverse ∧
      popMany ids (sortAsc (scon.map (bisectLeft ids))).reverse =
        some (sortDesc scon, ids.filter (fun x => !scon.contains x)) := by
  have hidn : ids.Nodup := hok.1.imp (fun h => by omega)
  have hpos : scon.map (bisectLeft ids) = scon.map (fun s => ids.idxOf s) := by
    apply List.map_congr_left
    intro s hs
    have := idxOf_getD ids s (hin s hs)
    have h := bisectLeft_getElem ids hok.1 _ this.1
    rw [this.2] at h
    exact h
  have hposn : (scon.map fun s => ids.idxOf s).Nodup := by
    unfold List.Nodup
    rw [List.pairwise_map]
    refine (List.Pairwise.and_mem.1 hnd).imp ?_
    rintro a b ⟨ha, hb, hab⟩ he
    apply hab
    have h1 := (idxOf_getD ids a (hin a ha)).2
    have h2 := (idxOf_getD ids b (hin b hb)).2
    rw [he] at h1
    exact h1.symm.trans h2
  have hposin : ∀ c ∈ scon.map (fun s => ids.idxOf s), c < ids.length := by
    intro c hc
    obtain ⟨s, hs, rfl⟩ := List.mem_map.1 hc
    exact (idxOf_getD ids s (hin s hs)).1
  rw [hpos]
  set pos := scon.map (fun s => ids.idxOf s) with hposdef
  have hdesc : DescIn ids.length (sortAsc pos).reverse := descIn_sortDesc ids.length pos hposn hposin
  obtain ⟨ids', hpop, _, _⟩ := popMany_desc ids (sortAsc pos).reverse hdesc
  have hpopped : (sortAsc pos).reverse.map (fun c => ids.getD c 0) = sortDesc scon := by
    apply sorted_ge_perm_unique
    · rw [List.pairwise_map]
      refine (List.Pairwise.and_mem.1 hdesc.1).imp ?_
      rintro a b ⟨ha, hb, hab⟩
      have := getD_lt_of_strict ids hok.1 b a hab (hdesc.2 a ha)
      omega
    · exact sortDesc_sorted scon
    · refine (List.Perm.map _ ((List.reverse_perm _).trans (sortAsc_perm pos))).trans ?_
      rw [hposdef, List.map_map]
      have : scon.map ((fun c => ids.getD c 0) ∘ fun s => ids.idxOf s) = scon := by
        conv => rhs; rw [← List.map_id scon]
        apply List.map_congr_left
        intro s hs
        exact (idxOf_getD ids s (hin s hs)).2
      rw [this]
      exact (sortDesc_perm scon).symm
  refine ⟨hdesc, ?_⟩
  rw [hpop, hpopped, popMany_desc_filter ids hidn _ hdesc _ _ hpop, hpopped]
  congr 2
  apply List.filter_congr
  intro x _
  have : (sortDesc scon).contains x = scon.contains x := by
    rw [Bool.eq_iff_iff]
    simp only [List.contains_eq_mem, decide_eq_true_eq]
    exact (sortDesc_perm scon).mem_iff
  rw [this]

/-- **the two branches of `from_path` agree along `ssa_to_linear`** -/
theorem fromLinear_eq_fromSsa (path : Path) : ∀ (Z : List (Nat × List Nat)) (ssa : Nat),
    IdsOK (Z.map (·.1)) ssa → ValidSsa (Z.map (·.1)) ssa path →
    ∃ lp, ssaToLinearLoop (Z.map (·.1)) ssa path = some lp ∧
      fromLinearLoop (Z.map (·.2)) lp = fromSsaLoop Z ssa path := by
  induction path with
  | nil => intro Z ssa _ _; exact ⟨[], rfl, rfl⟩
  | cons scon rest ih =>
    intro Z ssa hok hv
    obtain ⟨hnd, hin, hrest⟩ := hv
    have hkn : (Z.map (·.1)).Nodup := hok.1.imp (fun h => by omega)
    obtain ⟨hdesc, hpop⟩ := ssaToLinear_step (Z.map (·.1)) ssa hok scon hnd hin
    set con := sortAsc (scon.map (bisectLeft (Z.map (·.1)))) with hcon
    -- the same pops on the zipped list
    have hG := popMany_map (fun kv : Nat × List Nat => kv.1) Z con.reverse
    rw [hpop] at hG
    cases hZ : popMany Z con.reverse with
    | none => simp [hZ] at hG
    | some p =>
      obtain ⟨P, Z'⟩ := p
      simp only [hZ, Option.map_some, Option.some.injEq, Prod.mk.injEq] at hG
      obtain ⟨hP, hZ'⟩ := hG
      obtain ⟨hsub, hPmem⟩ := popMany_sublist Z con.reverse P Z' hZ
      have hZ'eq : Z' = Z.filter (fun kv => !scon.contains kv.1) :=
        sublist_eq_filter Z Z' (fun x => !scon.contains x) hsub hkn hZ'.symm
      have hnodes := popMany_map (fun kv : Nat × List Nat => kv.2) Z con.reverse
      rw [hZ] at hnodes
      simp only [Option.map_some] at hnodes
      have hPsnd : P.map (·.2) = (sortDesc scon).map (nodeOf Z) := by
        rw [hP, List.map_map]
        apply List.map_congr_left
        intro kv hkv
        simp [nodeOf, lookup_of_mem Z hkn kv (hPmem kv hkv)]
      have hdict := dictPopMany_spec scon Z hnd hin
      have hmerge : mergeNodes (P.map (·.2)) = mergeNodes (scon.map (nodeOf Z)) := by
        rw [hPsnd]
        exact mergeNodes_perm _ _ ((sortDesc_perm scon).map _)
      have hsd : sortDesc con = con.reverse := by
        unfold sortDesc; rw [hcon, sortAsc_idem]
      cases hm : mergeNodes (scon.map (nodeOf Z)) with
      | none =>
        -- both raise; the converter itself still succeeds
        have hok' := hok.step (ids' := (Z.map (·.1)).filter (fun x => !scon.contains x))
          List.filter_sublist
        -- conversion of the rest (exists by the inverse theorem)
        obtain ⟨lp', hlp', _, _⟩ := ssa_linear_roundtrip _ _ rest hok' hrest
        refine ⟨con :: lp', ?_, ?_⟩
        · simp only [ssaToLinearLoop, ← hcon, hpop, hlp']
        · simp only [fromLinearLoop, hsd, hnodes, hmerge, hm, fromSsaLoop, hdict]
      | some xm =>
        obtain ⟨x, isNew⟩ := xm
        have hkeys' : (Z' ++ [(ssa, x)]).map (·.1) =
            (Z.map (·.1)).filter (fun x => !scon.contains x) ++ [ssa] := by
          simp [hZ'.symm]
        obtain ⟨lp', h1, h2⟩ := ih (Z' ++ [(ssa, x)]) (ssa + 1)
          (by rw [hkeys']; exact hok.step List.filter_sublist) (by rw [hkeys']; exact hrest)
        rw [hkeys'] at h1
        refine ⟨con :: lp', ?_, ?_⟩
        · simp only [ssaToLinearLoop, ← hcon, hpop, h1]
        · have h2' : fromLinearLoop (Z'.map (·.2) ++ [x]) lp' = fromSsaLoop (Z' ++ [(ssa, x)]) (ssa + 1) rest := by
            rw [← h2]; simp
          simp only [fromLinearLoop, hsd, hnodes, hmerge, hm, fromSsaLoop, hdict, h2', ← hZ'eq]

end Cotengra.Paths
