import CotengraVerif.Lemmas.SliceKey

/-!
  Invariant of the slicing state under every history of `remove_ind` / `restore_ind`
  (sorted outputs-first, distinct indices, `multiplicity = Π size`, flags consistent with the
  network, `sliced_inputs` = inputs carrying a sliced index) and what the ordering buys:
  `sliced_inds = outputs ++ inner`.  Core Lean only.
-/
namespace Cotengra.Slicing
open Cotengra

theorem le_iff (a b : SliceInfo) :
    SliceInfo.le a b = true ↔
      ((a.inner = false ∧ b.inner = true) ∨
        (a.inner = b.inner ∧ (a.ind < b.ind ∨ (a.ind = b.ind ∧ a.size ≤ b.size)))) := by
  unfold SliceInfo.le
  cases ha : a.inner <;> cases hb : b.inner <;> by_cases hi : a.ind = b.ind <;>
    simp [hi] <;> (try omega)

theorem lex_trans (x y z p q r : Nat) (h1 : x < y ∨ x = y ∧ p ≤ q) (h2 : y < z ∨ y = z ∧ q ≤ r) :
    x < z ∨ x = z ∧ p ≤ r := by omega

theorem lex_total (x y p q : Nat) : (x < y ∨ x = y ∧ p ≤ q) ∨ y < x ∨ y = x ∧ q ≤ p := by omega

theorem le_trans' (a b c : SliceInfo) (h1 : SliceInfo.le a b = true) (h2 : SliceInfo.le b c = true) :
    SliceInfo.le a c = true := by
  rw [le_iff] at *
  cases ha : a.inner <;> cases hb : b.inner <;> cases hc : c.inner <;> simp_all <;>
    exact lex_trans _ _ _ _ _ _ h1 h2

theorem le_total' (a b : SliceInfo) : (SliceInfo.le a b || SliceInfo.le b a) = true := by
  rw [Bool.or_eq_true, le_iff, le_iff]
  cases ha : a.inner <;> cases hb : b.inner <;> simp <;>
    exact lex_total _ _ _ _

/-- `sliced_inds` is sorted by the dataclass order -/
def Sorted (sl : List SliceInfo) : Prop := sl.Pairwise (fun a b => SliceInfo.le a b = true)

theorem insertLe_perm (a : SliceInfo) (l : List SliceInfo) : (insertLe a l).Perm (a :: l) := by
  induction l with
  | nil => exact List.Perm.refl _
  | cons b t ih =>
    unfold insertLe
    split
    · exact List.Perm.refl _
    · exact (List.Perm.cons b ih).trans (List.Perm.swap a b t)

theorem sortInfos_perm (l : List SliceInfo) : (sortInfos l).Perm l := by
  induction l with
  | nil => exact List.Perm.refl _
  | cons a t ih =>
    unfold sortInfos at *
    rw [List.foldr_cons]
    exact (insertLe_perm a _).trans (List.Perm.cons a ih)

theorem insertLe_sorted (a : SliceInfo) (l : List SliceInfo) (h : Sorted l) : Sorted (insertLe a l) := by
  induction l with
  | nil => simp [insertLe, Sorted]
  | cons b t ih =>
    have hp := List.pairwise_cons.1 h
    unfold insertLe
    split
    · rename_i hab
      refine List.pairwise_cons.2 ⟨?_, h⟩
      intro x hx
      rcases List.mem_cons.1 hx with rfl | hx
      · exact hab
      · exact le_trans' _ _ _ hab (hp.1 x hx)
    · rename_i hab
      have hba : SliceInfo.le b a = true := by
        have := le_total' a b
        simp only [Bool.or_eq_true] at this
        rcases this with h1 | h1
        · exact absurd h1 hab
        · exact h1
      refine List.pairwise_cons.2 ⟨?_, ih hp.2⟩
      intro x hx
      rw [(insertLe_perm a t).mem_iff] at hx
      rcases List.mem_cons.1 hx with rfl | hx
      · exact hba
      · exact hp.1 x hx

theorem sortInfos_sorted (l : List SliceInfo) : Sorted (sortInfos l) := by
  induction l with
  | nil => exact List.Pairwise.nil
  | cons a t ih =>
    unfold sortInfos at *
    rw [List.foldr_cons]
    exact insertLe_sorted a _ ih

/-- consistency of the entries with the network, as `remove_ind` creates them -/
def Flags (n : Net) (sl : List SliceInfo) : Prop :=
  ∀ s ∈ sl, s.inner = (!n.output.contains s.ind) ∧ (s.project = none → s.size = n.size s.ind) ∧
    (s.project ≠ none → s.size = 1)

theorem Flags.wf {n : Net} {sl : List SliceInfo} (h : Flags n sl) : WF sl :=
  fun s hs hp => (h s hs).2.2 hp

structure Inv (n : Net) (st : SliceState) : Prop where
  sorted : Sorted st.slicedInds
  nodup : (st.slicedInds.map (·.ind)).Nodup
  flags : Flags n st.slicedInds
  mult : st.multiplicity = prodSizes st.slicedInds
  inputs : ∀ c, c ∈ st.slicedInputs ↔
    (c < n.inputs.length ∧ ∃ ix ∈ n.term c, isSliced st.slicedInds ix = true)

theorem isSliced_iff (sl : List SliceInfo) (ix : Ix) :
    isSliced sl ix = true ↔ ix ∈ sl.map (·.ind) := by
  unfold isSliced
  rw [List.any_eq_true, List.mem_map]
  constructor
  · rintro ⟨s, hs, h⟩; exact ⟨s, hs, by simpa using h⟩
  · rintro ⟨s, hs, h⟩; exact ⟨s, hs, by simpa using h⟩

theorem prodSizes_perm {a b : List SliceInfo} (h : a.Perm b) : prodSizes a = prodSizes b := by
  induction h with
  | nil => rfl
  | cons x _ ih => simp [prodSizes, ih]
  | swap x y l => simp [prodSizes, Nat.mul_left_comm]
  | trans _ _ ih1 ih2 => rw [ih1, ih2]

theorem prodSizes_pos (n : Net) (hpos : ∀ ix, 0 < n.size ix) (sl : List SliceInfo) (hf : Flags n sl) :
    0 < prodSizes sl := by
  induction sl with
  | nil => simp [prodSizes]
  | cons s t ih =>
    have ht := ih (fun x hx => hf x (List.mem_cons_of_mem _ hx))
    have hs : 0 < s.size := by
      have := hf s List.mem_cons_self
      cases hp : s.project with
      | none => rw [this.2.1 hp]; exact hpos _
      | some p => rw [this.2.2 (by simp [hp])]; exact Nat.one_pos
    simp only [prodSizes]
    exact Nat.mul_pos hs ht

theorem mem_setInsert (a : Nat) (l : List Nat) (c : Nat) : c ∈ setInsert a l ↔ c = a ∨ c ∈ l := by
  induction l with
  | nil => simp [setInsert]
  | cons b t ih =>
    unfold setInsert
    split
    · simp
    · split
      · rename_i h; subst h; simp
      · simp only [List.mem_cons, ih]
        constructor
        · rintro (h | h | h) <;> simp [h]
        · rintro (h | h | h) <;> simp [h]

theorem mem_foldl_setInsert (hs : List Nat) (l : List Nat) (c : Nat) :
    c ∈ hs.foldl (fun acc i => setInsert i acc) l ↔ c ∈ hs ∨ c ∈ l := by
  induction hs generalizing l with
  | nil => simp
  | cons h t ih =>
    simp only [List.foldl_cons, ih, mem_setInsert, List.mem_cons]
    constructor
    · rintro (h | h | h) <;> simp [h]
    · rintro ((h | h) | h) <;> simp [h]

theorem empty_inv (n : Net) : Inv n SliceState.empty := by
  refine ⟨List.Pairwise.nil, List.Pairwise.nil, ?_, rfl, ?_⟩
  · intro s hs; simp [SliceState.empty] at hs
  · intro c; simp [SliceState.empty, isSliced]

theorem removeInd_inv (n : Net) (st st' : SliceState) (ind : Ix) (p : Option Nat)
    (h : Inv n st) (hr : removeInd n st ind p = some st') : Inv n st' := by
  unfold removeInd at hr
  split at hr
  · simp at hr
  · rename_i hns
    simp only [Option.some.injEq] at hr
    subst hr
    generalize hsi : mkInfo n ind p = si
    have hind : si.ind = ind := by cases p <;> (subst hsi; rfl)
    have hperm2 : (sortInfos (st.slicedInds ++ [si])).Perm (si :: st.slicedInds) :=
      (sortInfos_perm _).trans (List.perm_append_singleton _ _)
    have hni : ind ∉ st.slicedInds.map (·.ind) := by
      rw [← isSliced_iff]; simpa using hns
    refine ⟨?_, ?_, ?_, ?_, ?_⟩
    · exact sortInfos_sorted _
    · show ((sortInfos (st.slicedInds ++ [si])).map (·.ind)).Nodup
      rw [(hperm2.map (·.ind)).nodup_iff]
      simp only [List.map_cons, List.nodup_cons, hind]
      exact ⟨hni, h.nodup⟩
    · intro s hs
      replace hs : s ∈ sortInfos (st.slicedInds ++ [si]) := hs
      rw [hperm2.mem_iff, List.mem_cons] at hs
      rcases hs with rfl | hs
      · cases p <;> (subst hsi; simp [mkInfo])
      · exact h.flags s hs
    · show _ = prodSizes (sortInfos (st.slicedInds ++ [si]))
      rw [prodSizes_perm hperm2, prodSizes, h.mult]
      cases p <;> (subst hsi; simp [mkInfo, Nat.mul_comm])
    · intro c
      show c ∈ List.foldl _ _ _ ↔ _ ∧ ∃ ix ∈ _, isSliced (sortInfos (st.slicedInds ++ [si])) ix = true
      simp only [mem_foldl_setInsert, List.mem_filter, List.mem_range, h.inputs c]
      have hsl : ∀ ix, isSliced (sortInfos (st.slicedInds ++ [si])) ix = true ↔
          (ix = ind ∨ isSliced st.slicedInds ix = true) := by
        intro ix
        rw [isSliced_iff, isSliced_iff, ((hperm2.map (·.ind)).mem_iff)]
        simp [hind]
      constructor
      · rintro (⟨hc, hm⟩ | ⟨hc, ix, hix, hs⟩)
        · exact ⟨hc, ind, by simpa using hm, (hsl _).2 (Or.inl rfl)⟩
        · exact ⟨hc, ix, hix, (hsl _).2 (Or.inr hs)⟩
      · rintro ⟨hc, ix, hix, hs⟩
        rcases (hsl _).1 hs with rfl | hs
        · exact Or.inl ⟨hc, by simpa using hix⟩
        · exact Or.inr ⟨hc, ix, hix, hs⟩

theorem prodSizes_filter_ne (sl : List SliceInfo) (si : SliceInfo)
    (hnd : (sl.map (·.ind)).Nodup) (hm : si ∈ sl) :
    prodSizes sl = si.size * prodSizes (sl.filter (fun s => s.ind != si.ind)) := by
  induction sl with
  | nil => simp at hm
  | cons s t ih =>
    simp only [List.map_cons, List.nodup_cons] at hnd
    rcases List.mem_cons.1 hm with rfl | hm'
    · have : t.filter (fun s => s.ind != si.ind) = t := by
        apply List.filter_eq_self.2
        intro x hx
        have : x.ind ≠ si.ind := fun he => hnd.1 (he ▸ List.mem_map.2 ⟨x, hx, rfl⟩)
        simpa using this
      simp [this, prodSizes]
    · have hne : s.ind ≠ si.ind := fun he => hnd.1 (he ▸ List.mem_map.2 ⟨si, hm', rfl⟩)
      have : (s.ind != si.ind) = true := by simpa using hne
      simp only [List.filter_cons, this, if_true, prodSizes, ih hnd.2 hm']
      rw [Nat.mul_left_comm]

theorem restoreInd_inv (n : Net) (hpos : ∀ ix, 0 < n.size ix) (st st' : SliceState) (ind : Ix)
    (h : Inv n st) (hr : restoreInd n st ind = some st') : Inv n st' := by
  unfold restoreInd at hr
  split at hr
  · simp at hr
  · rename_i si hsi
    simp only [Option.some.injEq] at hr
    subst hr
    unfold infoOf at hsi
    have hmem : si ∈ st.slicedInds := List.mem_of_find?_eq_some hsi
    have hind : si.ind = ind := by simpa using List.find?_some hsi
    have hsub : (st.slicedInds.filter (fun s => s.ind != ind)).Sublist st.slicedInds :=
      List.filter_sublist
    have hsl : ∀ ix, isSliced (st.slicedInds.filter (fun s => s.ind != ind)) ix = true ↔
        (ix ≠ ind ∧ isSliced st.slicedInds ix = true) := by
      intro ix
      simp only [isSliced, List.any_eq_true, List.mem_filter]
      constructor
      · rintro ⟨s, ⟨hs, hne⟩, he⟩
        have he : s.ind = ix := by simpa using he
        exact ⟨by rw [← he]; simpa using hne, s, hs, by simpa using he⟩
      · rintro ⟨hne, s, hs, he⟩
        have he : s.ind = ix := by simpa using he
        exact ⟨s, ⟨hs, by rw [he]; simpa using hne⟩, by simpa using he⟩
    refine ⟨?_, ?_, ?_, ?_, ?_⟩
    · exact List.Pairwise.sublist hsub h.sorted
    · exact List.Nodup.sublist (hsub.map _) h.nodup
    · intro s hs; exact h.flags s (hsub.subset hs)
    · simp only
      have hp := prodSizes_filter_ne st.slicedInds si h.nodup hmem
      rw [hind] at hp
      have hs : 0 < si.size := by
        have := h.flags si hmem
        cases hp : si.project with
        | none => rw [this.2.1 hp]; exact hpos _
        | some p => rw [this.2.2 (by simp [hp])]; exact Nat.one_pos
      rw [h.mult, hp, Nat.mul_comm, Nat.mul_div_cancel _ hs]
    · intro c
      simp only [List.mem_filter, h.inputs c]
      constructor
      · rintro ⟨⟨hc, ix, hix, hs⟩, hnot⟩
        refine ⟨hc, ?_⟩
        by_cases he : ix = ind
        · subst he
          have hcont : (n.term c).contains ix = true := by simpa using hix
          simp only [hcont, Bool.true_and, Bool.not_eq_true', List.all_eq_false] at hnot
          obtain ⟨jx, hjx, hj⟩ := hnot
          exact ⟨jx, hjx, by simpa using hj⟩
        · exact ⟨ix, hix, (hsl ix).2 ⟨he, hs⟩⟩
      · rintro ⟨hc, ix, hix, hs⟩
        have hs' := (hsl ix).1 hs
        refine ⟨⟨hc, ix, hix, hs'.2⟩, ?_⟩
        simp only [Bool.not_eq_true', Bool.and_eq_false_iff, List.all_eq_false]
        exact Or.inr ⟨ix, hix, by simpa using hs⟩

theorem stepOp_inv (n : Net) (hpos : ∀ ix, 0 < n.size ix) (st : SliceState) (op : SliceOp)
    (h : Inv n st) : Inv n (stepOp n st op) := by
  cases op with
  | remove ind p =>
    cases hr : removeInd n st ind p with
    | none => simpa [stepOp, hr] using h
    | some st' => simpa [stepOp, hr] using removeInd_inv n st st' ind p h hr
  | restore ind =>
    cases hr : restoreInd n st ind with
    | none => simpa [stepOp, hr] using h
    | some st' => simpa [stepOp, hr] using restoreInd_inv n hpos st st' ind h hr

theorem runOps_inv (n : Net) (hpos : ∀ ix, 0 < n.size ix) (ops : List SliceOp) :
    Inv n (runOps n ops) := by
  unfold runOps
  suffices ∀ st, Inv n st → Inv n (ops.foldl (stepOp n) st) from this _ (empty_inv n)
  induction ops with
  | nil => intro st h; exact h
  | cons op t ih => intro st h; exact ih _ (stepOp_inv n hpos st op h)

/-- sorted by the dataclass order ⇒ all output entries precede all inner entries -/
theorem sorted_split (sl : List SliceInfo) (h : Sorted sl) :
    sl = sl.filter (fun s => !s.inner) ++ sl.filter (fun s => s.inner) := by
  induction sl with
  | nil => rfl
  | cons s t ih =>
    have hp := List.pairwise_cons.1 h
    have iht := ih hp.2
    cases hs : s.inner with
    | false =>
      simp only [List.filter_cons, hs, Bool.not_false, if_true, Bool.false_eq_true, if_false,
        List.cons_append]
      rw [← iht]
    | true =>
      have hall : ∀ x ∈ t, x.inner = true := by
        intro x hx
        have := (le_iff s x).1 (hp.1 x hx)
        rw [hs] at this
        rcases this with ⟨h1, _⟩ | ⟨h1, _⟩
        · simp at h1
        · exact h1.symm
      have h1 : t.filter (fun s => !s.inner) = [] := by
        apply List.filter_eq_nil_iff.2
        intro x hx; simp [hall x hx]
      have h2 : t.filter (fun s => s.inner) = t := List.filter_eq_self.2 hall
      simp [hs, h1, h2]

end Cotengra.Slicing
