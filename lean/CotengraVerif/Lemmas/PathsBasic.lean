import CotengraVerif.Model.Paths
import Mathlib.Data.List.Sort
import Mathlib.Data.List.Perm.Subperm

/-!
  Basic facts for the path converters: the small sorts, `bisect_left` on strictly increasing
  lists, popping several positions.
-/
namespace Cotengra

theorem BT.beq_iff (a b : BT) : (a == b) = true ↔ a = b := by
  induction a generalizing b with
  | leaf i =>
    cases b with
    | leaf j =>
      show (decide (i = j)) = true ↔ _
      simp
    | node l r =>
      constructor
      · intro h; cases h
      · intro h; cases h
  | node l r ihl ihr =>
    cases b with
    | leaf j =>
      constructor
      · intro h; cases h
      · intro h; cases h
    | node l' r' =>
      show (l == l' && r == r') = true ↔ _
      simp [ihl, ihr]

instance : LawfulBEq BT where
  eq_of_beq := fun h => (BT.beq_iff _ _).1 h
  rfl := (BT.beq_iff _ _).2 rfl

namespace Paths

/-! ### sorting -/

theorem insertAsc_perm (a : Nat) (l : List Nat) : (insertAsc a l).Perm (a :: l) := by
  induction l with
  | nil => exact List.Perm.refl _
  | cons b t ih =>
    unfold insertAsc
    split
    · exact List.Perm.refl _
    · exact (List.Perm.cons b ih).trans (List.Perm.swap a b t)

theorem sortAsc_perm (l : List Nat) : (sortAsc l).Perm l := by
  induction l with
  | nil => exact List.Perm.refl _
  | cons a t ih =>
    unfold sortAsc at *
    rw [List.foldr_cons]
    exact (insertAsc_perm a _).trans (List.Perm.cons a ih)

theorem insertAsc_sorted (a : Nat) (l : List Nat) (h : l.Pairwise (· ≤ ·)) :
    (insertAsc a l).Pairwise (· ≤ ·) := by
  induction l with
  | nil => simp [insertAsc]
  | cons b t ih =>
    have hp := List.pairwise_cons.1 h
    unfold insertAsc
    split
    · rename_i hab
      refine List.pairwise_cons.2 ⟨?_, h⟩
      intro x hx
      rcases List.mem_cons.1 hx with rfl | hx
      · exact hab
      · exact Nat.le_trans hab (hp.1 x hx)
    · rename_i hab
      refine List.pairwise_cons.2 ⟨?_, ih hp.2⟩
      intro x hx
      rw [(insertAsc_perm a t).mem_iff] at hx
      rcases List.mem_cons.1 hx with rfl | hx
      · omega
      · exact hp.1 x hx

theorem sortAsc_sorted (l : List Nat) : (sortAsc l).Pairwise (· ≤ ·) := by
  induction l with
  | nil => exact List.Pairwise.nil
  | cons a t ih =>
    unfold sortAsc at *
    rw [List.foldr_cons]
    exact insertAsc_sorted a _ ih

theorem sorted_perm_unique (l₁ l₂ : List Nat) (h₁ : l₁.Pairwise (· ≤ ·)) (h₂ : l₂.Pairwise (· ≤ ·))
    (hp : l₁.Perm l₂) : l₁ = l₂ :=
  List.Perm.eq_of_pairwise (fun _ _ _ _ h1 h2 => Nat.le_antisymm h1 h2) h₁ h₂ hp

theorem sortAsc_of_perm {l₁ l₂ : List Nat} (h : l₁.Perm l₂) : sortAsc l₁ = sortAsc l₂ :=
  sorted_perm_unique _ _ (sortAsc_sorted _) (sortAsc_sorted _)
    ((sortAsc_perm l₁).trans (h.trans (sortAsc_perm l₂).symm))

theorem sortAsc_of_sorted (l : List Nat) (h : l.Pairwise (· ≤ ·)) : sortAsc l = l :=
  sorted_perm_unique _ _ (sortAsc_sorted _) h (sortAsc_perm l)

theorem sortAsc_idem (l : List Nat) : sortAsc (sortAsc l) = sortAsc l :=
  sortAsc_of_sorted _ (sortAsc_sorted l)

theorem sortDesc_perm (l : List Nat) : (sortDesc l).Perm l :=
  (List.reverse_perm _).trans (sortAsc_perm l)

theorem sortDesc_sorted (l : List Nat) : (sortDesc l).Pairwise (· ≥ ·) := by
  unfold sortDesc
  rw [List.pairwise_reverse]
  exact sortAsc_sorted l

theorem sortAsc_nodup (l : List Nat) (h : l.Nodup) : (sortAsc l).Nodup :=
  (sortAsc_perm l).nodup_iff.2 h

/-- a duplicate-free sorted list is strictly sorted -/
theorem strict_of_sorted_nodup (l : List Nat) (h : l.Pairwise (· ≤ ·)) (hn : l.Nodup) :
    l.Pairwise (· < ·) := by
  induction l with
  | nil => exact List.Pairwise.nil
  | cons a t ih =>
    have hp := List.pairwise_cons.1 h
    have hn' := List.nodup_cons.1 hn
    refine List.pairwise_cons.2 ⟨?_, ih hp.2 hn'.2⟩
    intro x hx
    have := hp.1 x hx
    have : a ≠ x := fun e => hn'.1 (e ▸ hx)
    omega

/-! ### bisect_left on strictly increasing lists -/

theorem getD_eq_getElem' (a : List Nat) (i : Nat) (h : i < a.length) : a.getD i 0 = a[i] := by
  rw [List.getD_eq_getElem?_getD, List.getElem?_eq_getElem h]; rfl

theorem getD_lt_of_strict (a : List Nat) (h : a.Pairwise (· < ·)) (i j : Nat) (hij : i < j)
    (hj : j < a.length) : a.getD i 0 < a.getD j 0 := by
  have hi : i < a.length := by omega
  rw [getD_eq_getElem' _ _ hi, getD_eq_getElem' _ _ hj]
  exact (List.pairwise_iff_getElem.1 h) i j hi hj hij

theorem bisectLeftAux_spec (a : List Nat) (h : a.Pairwise (· < ·)) (x : Nat) (f lo hi : Nat)
    (hlo : ∀ k, k < lo → a.getD k 0 < x) (hhi : ∀ k, hi ≤ k → k < a.length → x ≤ a.getD k 0)
    (hle : lo ≤ hi) (hlen : hi ≤ a.length) (hf : hi - lo < f) :
    (∀ k, k < bisectLeftAux a x f lo hi → a.getD k 0 < x) ∧
      (∀ k, bisectLeftAux a x f lo hi ≤ k → k < a.length → x ≤ a.getD k 0) ∧
      bisectLeftAux a x f lo hi ≤ a.length := by
  induction f generalizing lo hi with
  | zero => omega
  | succ f ih =>
    unfold bisectLeftAux
    by_cases hlt : lo < hi
    · simp only [hlt, if_true]
      have hmid1 : lo ≤ (lo + hi) / 2 := by omega
      have hmid2 : (lo + hi) / 2 < hi := by omega
      by_cases hc : a.getD ((lo + hi) / 2) 0 < x
      · simp only [hc, if_true]
        apply ih
        · intro k hk
          by_cases hkm : k = (lo + hi) / 2
          · rw [hkm]; exact hc
          · have : a.getD k 0 < a.getD ((lo + hi) / 2) 0 :=
              getD_lt_of_strict a h k _ (by omega) (by omega)
            omega
        · exact hhi
        · omega
        · exact hlen
        · omega
      · simp only [hc, if_false]
        apply ih
        · exact hlo
        · intro k hk hkl
          by_cases hkm : k = (lo + hi) / 2
          · rw [hkm]; omega
          · have : a.getD ((lo + hi) / 2) 0 < a.getD k 0 :=
              getD_lt_of_strict a h _ k (by omega) hkl
            omega
        · omega
        · omega
        · omega
    · simp only [hlt, if_false]
      have : lo = hi := by omega
      subst this
      exact ⟨hlo, hhi, hlen⟩

/-- on a strictly increasing list `bisect_left` finds the position of a present element -/
theorem bisectLeft_getElem (a : List Nat) (h : a.Pairwise (· < ·)) (c : Nat) (hc : c < a.length) :
    bisectLeft a (a.getD c 0) = c := by
  obtain ⟨h1, h2, _⟩ := bisectLeftAux_spec a h (a.getD c 0) (a.length + 1) 0 a.length
    (by intro k hk; omega) (by intro k hk hk'; omega) (Nat.zero_le _) (Nat.le_refl _) (by omega)
  unfold bisectLeft
  generalize bisectLeftAux a (a.getD c 0) (a.length + 1) 0 a.length = r at h1 h2
  by_cases h3 : c < r
  · have := h1 c h3; omega
  · by_cases h4 : r < c
    · have := h2 r (Nat.le_refl _) (by omega)
      have := getD_lt_of_strict a h r c h4 hc
      omega
    · omega

theorem bisectRightAux_le (a : List Nat) (x : Nat) (f lo hi : Nat) (hle : lo ≤ hi) :
    bisectRightAux a x f lo hi ≤ hi := by
  induction f generalizing lo hi with
  | zero => exact hle
  | succ f ih =>
    unfold bisectRightAux
    by_cases hlt : lo < hi
    · simp only [hlt, if_true]
      split
      · have := ih lo ((lo + hi) / 2) (by omega); omega
      · exact ih _ _ (by omega)
    · simp only [hlt, if_false]; exact hle

theorem bisectRight_le (a : List Nat) (x : Nat) : bisectRight a x ≤ a.length :=
  bisectRightAux_le a x _ 0 a.length (Nat.zero_le _)

/-! ### popping positions in descending order -/

/-- positions strictly decreasing and in range -/
def DescIn (len : Nat) (cs : List Nat) : Prop := cs.Pairwise (· > ·) ∧ ∀ c ∈ cs, c < len

theorem getElem?_eraseIdx_lt (l : List Nat) (c k : Nat) (h : k < c) : (l.eraseIdx c)[k]? = l[k]? := by
  rw [List.getElem?_eraseIdx]
  simp [h]

theorem popMany_desc (ids : List Nat) (cs : List Nat) (h : DescIn ids.length cs) :
    ∃ ids', popMany ids cs = some (cs.map (fun c => ids.getD c 0), ids') ∧
      ids'.Sublist ids ∧ ids'.length + cs.length = ids.length := by
  induction cs generalizing ids with
  | nil => exact ⟨ids, rfl, List.Sublist.refl _, by simp⟩
  | cons c cs ih =>
    obtain ⟨hp, hin⟩ := h
    have hp' := List.pairwise_cons.1 hp
    have hc : c < ids.length := hin c List.mem_cons_self
    have hlen : (ids.eraseIdx c).length = ids.length - 1 := List.length_eraseIdx_of_lt hc
    have hd : DescIn (ids.eraseIdx c).length cs := by
      refine ⟨hp'.2, ?_⟩
      intro k hk
      have := hp'.1 k hk
      omega
    obtain ⟨ids', h1, h2, h3⟩ := ih (ids.eraseIdx c) hd
    refine ⟨ids', ?_, h2.trans (List.eraseIdx_sublist _ _), by simp only [List.length_cons]; omega⟩
    unfold popMany
    rw [List.getElem?_eq_getElem hc, h1]
    simp only [List.map_cons, Option.some.injEq, Prod.mk.injEq, List.cons.injEq, and_true]
    refine ⟨by rw [getD_eq_getElem' _ _ hc], ?_⟩
    apply List.map_congr_left
    intro k hk
    have := hp'.1 k hk
    rw [List.getD_eq_getElem?_getD, List.getD_eq_getElem?_getD, getElem?_eraseIdx_lt _ _ _ this]

/-- the state of both converters: live ids strictly increasing and below the next fresh id -/
def IdsOK (ids : List Nat) (ssa : Nat) : Prop := ids.Pairwise (· < ·) ∧ ∀ x ∈ ids, x < ssa

theorem IdsOK.step {ids ids' : List Nat} {ssa : Nat} (h : IdsOK ids ssa) (hs : ids'.Sublist ids) :
    IdsOK (ids' ++ [ssa]) (ssa + 1) := by
  refine ⟨?_, ?_⟩
  · rw [List.pairwise_append]
    refine ⟨List.Pairwise.sublist hs h.1, by simp, ?_⟩
    intro a ha b hb
    simp only [List.mem_singleton] at hb
    subst hb
    exact h.2 a (hs.subset ha)
  · intro x hx
    rcases List.mem_append.1 hx with hx | hx
    · have := h.2 x (hs.subset hx); omega
    · simp only [List.mem_singleton] at hx; omega

theorem idsOK_range (n : Nat) : IdsOK (List.range n) n := by
  refine ⟨?_, fun x hx => List.mem_range.1 hx⟩
  exact List.pairwise_lt_range

theorem descIn_sortDesc (len : Nat) (con : List Nat) (hn : con.Nodup) (hin : ∀ c ∈ con, c < len) :
    DescIn len (sortDesc con) := by
  refine ⟨?_, fun c hc => hin c ((sortDesc_perm con).mem_iff.1 hc)⟩
  unfold sortDesc
  rw [List.pairwise_reverse]
  exact strict_of_sorted_nodup _ (sortAsc_sorted con) (sortAsc_nodup con hn)

end Paths
end Cotengra
