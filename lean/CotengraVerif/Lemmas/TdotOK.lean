import CotengraVerif.Lemmas.RecipesOK
import Mathlib.Data.List.Sort

/-!
  The tensordot recipe of the model (`get_tensordot_axes`, `get_tensordot_perm`) is accepted by
  the checker's typing clause whenever the operands' index lists are duplicate-free:
  the paired axes carry equal indices, the derived einsum equation is a bijection, the
  tensordot result has the axes `free(l) ++ free(r)`, and – when the parent's list is a
  reordering of exactly those – the permutation brings it into the parent's order.
-/
namespace Cotengra

/-! ### positions in duplicate-free lists -/

theorem map_idxOf_eq_range (l : List Nat) (h : l.Nodup) :
    l.map (fun x => l.idxOf x) = List.range l.length := by
  apply List.ext_getElem
  · simp
  · intro i h1 h2
    simp only [List.getElem_map, List.getElem_range]
    exact h.idxOf_getElem i (by simpa using h1)

theorem zipIdx_eq_map (l : List Nat) (h : l.Nodup) :
    l.zipIdx = l.map fun x => (x, l.idxOf x) := by
  apply List.ext_getElem
  · simp
  · intro i h1 h2
    simp only [List.getElem_zipIdx, List.getElem_map, Nat.zero_add]
    rw [h.idxOf_getElem i (by simpa using h1)]

theorem assoc_map_pair (ys : List Nat) (f g : Nat → Nat)
    (hinj : ∀ a ∈ ys, ∀ b ∈ ys, f a = f b → a = b) (x : Nat) (hx : x ∈ ys) :
    assoc (ys.map fun y => (f y, g y)) (f x) = g x := by
  induction ys with
  | nil => cases hx
  | cons y ys ih =>
    simp only [List.map_cons, assoc]
    by_cases e : f y = f x
    · have : y = x := hinj y List.mem_cons_self x hx e
      simp [this]
    · simp only [e, if_false]
      rcases List.mem_cons.1 hx with rfl | hx'
      · exact absurd rfl e
      · exact ih (fun a ha b hb => hinj a (List.mem_cons_of_mem _ ha) b (List.mem_cons_of_mem _ hb)) hx'

/-- indices of `lI` that also occur in `rI` -/
def shared (lI rI : List Nat) : List Nat := lI.filter fun x => rI.contains x

theorem mem_shared (lI rI : List Nat) (x : Nat) : x ∈ shared lI rI ↔ x ∈ lI ∧ x ∈ rI := by
  simp [shared]

theorem tensordotAxes_eq (lI rI : List Nat) (hl : lI.Nodup) :
    tensordotAxes lI rI =
      ((shared lI rI).map fun x => lI.idxOf x, (shared lI rI).map fun x => rI.idxOf x) := by
  simp only [tensordotAxes, zipIdx_eq_map lI hl, List.filter_map, List.map_map, shared]
  constructor

/-- the labelling behind the derived equation of a tensordot -/
def tdLab (lI rI : List Nat) (x : Nat) : Nat :=
  if x ∈ lI then lI.idxOf x else lI.length + rI.idxOf x

theorem tdLab_inj (lI rI : List Nat) :
    ∀ x ∈ lI ++ rI, ∀ y ∈ lI ++ rI, tdLab lI rI x = tdLab lI rI y → x = y := by
  intro x hx y hy e
  unfold tdLab at e
  by_cases h1 : x ∈ lI <;> by_cases h2 : y ∈ lI
  · simp only [h1, h2, if_true] at e
    exact (List.idxOf_inj h1).1 e
  · simp only [h1, h2, if_true, if_false] at e
    have := List.idxOf_lt_length_of_mem h1
    omega
  · simp only [h1, h2, if_true, if_false] at e
    have := List.idxOf_lt_length_of_mem h2
    omega
  · simp only [h1, h2, if_false] at e
    have hxr : x ∈ rI := (List.mem_append.1 hx).resolve_left h1
    exact (List.idxOf_inj hxr).1 (by omega)

/-- axes of the tensordot result: free indices of the left, then of the right operand -/
def tdOut (lI rI : List Nat) : List Nat :=
  (lI.filter fun x => !rI.contains x) ++ rI.filter fun x => !lI.contains x

theorem mem_tdOut (lI rI : List Nat) (x : Nat) :
    x ∈ tdOut lI rI ↔ (x ∈ lI ∧ x ∉ rI) ∨ (x ∈ rI ∧ x ∉ lI) := by
  simp [tdOut]

theorem tdOut_nodup (lI rI : List Nat) (hl : lI.Nodup) (hr : rI.Nodup) : (tdOut lI rI).Nodup := by
  unfold tdOut
  rw [List.nodup_append]
  refine ⟨hl.filter _, hr.filter _, ?_⟩
  intro a ha b hb e
  subst e
  have h1 := (List.mem_filter.1 ha).1
  have h2 := (List.mem_filter.1 hb).2
  simp [h1] at h2

theorem contains_axA (lI rI : List Nat) (x : Nat) (hx : x ∈ lI) :
    ((shared lI rI).map fun y => lI.idxOf y).contains (lI.idxOf x) = rI.contains x := by
  rw [Bool.eq_iff_iff]
  simp only [List.contains_iff_mem, List.mem_map]
  constructor
  · rintro ⟨y, hy, e⟩
    have hy' := (mem_shared lI rI y).1 hy
    have : y = x := (List.idxOf_inj hy'.1).1 e
    exact this ▸ hy'.2
  · intro h
    exact ⟨x, (mem_shared lI rI x).2 ⟨hx, h⟩, rfl⟩

theorem contains_axB (lI rI : List Nat) (x : Nat) (hx : x ∈ rI) :
    ((shared lI rI).map fun y => rI.idxOf y).contains (rI.idxOf x) = lI.contains x := by
  rw [Bool.eq_iff_iff]
  simp only [List.contains_iff_mem, List.mem_map]
  constructor
  · rintro ⟨y, hy, e⟩
    have hy' := (mem_shared lI rI y).1 hy
    have : y = x := (List.idxOf_inj hy'.2).1 e
    exact this ▸ hy'.1
  · intro h
    exact ⟨x, (mem_shared lI rI x).2 ⟨h, hx⟩, rfl⟩

/-- the derived einsum equation of the model's tensordot is the relabelling by `tdLab` -/
theorem tdotLabels_eq (lI rI : List Nat) (hl : lI.Nodup) (hr : rI.Nodup) :
    tdotLabels lI.length rI.length (tensordotAxes lI rI).1 (tensordotAxes lI rI).2 =
      (lI.map (tdLab lI rI), rI.map (tdLab lI rI), (tdOut lI rI).map (tdLab lI rI)) := by
  rw [tensordotAxes_eq lI rI hl]
  simp only [tdotLabels]
  have e1 : List.range lI.length = lI.map (tdLab lI rI) := by
    rw [← map_idxOf_eq_range lI hl]
    apply List.map_congr_left
    intro x hx
    simp [tdLab, hx]
  have e2 : (List.range rI.length).map (fun j =>
        if ((shared lI rI).map fun x => rI.idxOf x).contains j then
          assoc (((shared lI rI).map fun x => rI.idxOf x).zip ((shared lI rI).map fun x => lI.idxOf x)) j
        else lI.length + j) = rI.map (tdLab lI rI) := by
    rw [← map_idxOf_eq_range rI hr, List.map_map]
    apply List.map_congr_left
    intro x hx
    simp only [Function.comp, contains_axB lI rI x hx, tdLab, List.contains_iff_mem]
    by_cases h : x ∈ lI
    · simp only [h, if_true]
      rw [List.zip_map']
      exact assoc_map_pair (shared lI rI) (fun y => rI.idxOf y) (fun y => lI.idxOf y)
        (fun a ha b _ e => (List.idxOf_inj ((mem_shared lI rI a).1 ha).2).1 e) x
        ((mem_shared lI rI x).2 ⟨h, hx⟩)
    · simp [h]
  have e3 : ((List.range lI.length).filter fun i =>
        !((shared lI rI).map fun x => lI.idxOf x).contains i) =
      (lI.filter fun x => !rI.contains x).map (tdLab lI rI) := by
    rw [← map_idxOf_eq_range lI hl, List.filter_map]
    have : lI.filter ((fun i => !((shared lI rI).map fun x => lI.idxOf x).contains i) ∘
        fun x => lI.idxOf x) = lI.filter fun x => !rI.contains x := by
      apply List.filter_congr
      intro x hx
      simp only [Function.comp, contains_axA lI rI x hx]
    rw [this]
    apply List.map_congr_left
    intro x hx
    simp [tdLab, (List.mem_filter.1 hx).1]
  have e4 : (((List.range rI.length).filter fun j =>
        !((shared lI rI).map fun x => rI.idxOf x).contains j).map (lI.length + ·)) =
      (rI.filter fun x => !lI.contains x).map (tdLab lI rI) := by
    rw [← map_idxOf_eq_range rI hr, List.filter_map, List.map_map]
    have : rI.filter ((fun j => !((shared lI rI).map fun x => rI.idxOf x).contains j) ∘
        fun x => rI.idxOf x) = rI.filter fun x => !lI.contains x := by
      apply List.filter_congr
      intro x hx
      simp only [Function.comp, contains_axB lI rI x hx]
    rw [this]
    apply List.map_congr_left
    intro x hx
    have hx2 := (List.mem_filter.1 hx).2
    have : x ∉ lI := by simpa using hx2
    simp [tdLab, this]
  rw [e2, e3, e4, ← e1, tdOut, List.map_append]

theorem tdotAxesOk_model (lI rI : List Nat) (hl : lI.Nodup) :
    tdotAxesOk lI.length rI.length (tensordotAxes lI rI).1 (tensordotAxes lI rI).2 = true := by
  rw [tensordotAxes_eq lI rI hl]
  have hs : (shared lI rI).Nodup := hl.filter _
  simp only [tdotAxesOk, List.length_map, beq_self_eq_true, Bool.true_and, Bool.and_eq_true,
    List.all_eq_true, decide_eq_true_eq, nodupB_iff]
  refine ⟨⟨⟨?_, ?_⟩, ?_⟩, ?_⟩
  · exact List.Nodup.map_on (fun a ha b _ e => (List.idxOf_inj ((mem_shared lI rI a).1 ha).1).1 e) hs
  · exact List.Nodup.map_on (fun a ha b _ e => (List.idxOf_inj ((mem_shared lI rI a).1 ha).2).1 e) hs
  · intro j hj
    obtain ⟨x, hx, rfl⟩ := List.mem_map.1 hj
    exact List.idxOf_lt_length_of_mem ((mem_shared lI rI x).1 hx).1
  · intro j hj
    obtain ⟨x, hx, rfl⟩ := List.mem_map.1 hj
    exact List.idxOf_lt_length_of_mem ((mem_shared lI rI x).1 hx).2

/-- the model's tensordot is well-typed and produces `free(l) ++ free(r)` -/
theorem tdot_binaryAxes (lI rI : List Nat) (hl : lI.Nodup) (hr : rI.Nodup) :
    binaryAxes (tdotLabels lI.length rI.length (tensordotAxes lI rI).1 (tensordotAxes lI rI).2).1
      (tdotLabels lI.length rI.length (tensordotAxes lI rI).1 (tensordotAxes lI rI).2).2.1
      (tdotLabels lI.length rI.length (tensordotAxes lI rI).1 (tensordotAxes lI rI).2).2.2
      lI rI = .ok (tdOut lI rI) := by
  rw [tdotLabels_eq lI rI hl hr]
  apply binaryAxes_of_labelling _ lI rI _ (tdLab_inj lI rI) _ (tdOut_nodup lI rI hl hr)
  intro p hp
  rcases (mem_tdOut lI rI p).1 hp with h | h
  · exact List.mem_append_left _ h.1
  · exact List.mem_append_right _ h.1

/-! ### the permutation -/

theorem insertBy_perm (key : Nat → Nat) (x : Nat) (l : List Nat) :
    (insertBy key x l).Perm (x :: l) := by
  induction l with
  | nil => exact List.Perm.refl _
  | cons y ys ih =>
    simp only [insertBy]
    split
    · exact List.Perm.refl _
    · exact (ih.cons y).trans (List.Perm.swap x y ys)

theorem sortBy_perm (key : Nat → Nat) (l : List Nat) : (sortBy key l).Perm l := by
  induction l with
  | nil => exact List.Perm.refl _
  | cons x xs ih =>
    simp only [sortBy, List.foldr_cons] at *
    exact (insertBy_perm key x _).trans (ih.cons x)

theorem insertBy_sorted (key : Nat → Nat) (x : Nat) (l : List Nat)
    (h : l.Pairwise fun a b => key a ≤ key b) :
    (insertBy key x l).Pairwise fun a b => key a ≤ key b := by
  induction l with
  | nil => simp [insertBy]
  | cons y ys ih =>
    simp only [insertBy]
    have hy := List.pairwise_cons.1 h
    split
    · rename_i hxy
      refine List.pairwise_cons.2 ⟨?_, h⟩
      intro b hb
      rcases List.mem_cons.1 hb with rfl | hb
      · exact hxy
      · exact Nat.le_trans hxy (hy.1 b hb)
    · rename_i hxy
      refine List.pairwise_cons.2 ⟨?_, ih hy.2⟩
      intro b hb
      rcases List.mem_cons.1 ((insertBy_perm key x ys).mem_iff.1 hb) with rfl | hb
      · omega
      · exact hy.1 b hb

theorem sortBy_sorted (key : Nat → Nat) (l : List Nat) :
    (sortBy key l).Pairwise fun a b => key a ≤ key b := by
  induction l with
  | nil => simp [sortBy]
  | cons x xs ih =>
    simp only [sortBy, List.foldr_cons] at *
    exact insertBy_sorted key x _ ih

/-- sorting a permutation of a list that is sorted by an injective key yields that list -/
theorem sortBy_eq_of_sorted (key : Nat → Nat) (l m : List Nat) (hp : l.Perm m)
    (hs : m.Pairwise fun a b => key a ≤ key b)
    (hinj : ∀ a ∈ m, ∀ b ∈ m, key a = key b → a = b) : sortBy key l = m := by
  apply List.Perm.eq_of_pairwise (le := fun a b => key a ≤ key b) _ (sortBy_sorted key l) hs
    ((sortBy_perm key l).trans hp)
  intro a b ha hb h1 h2
  have ha' : a ∈ m := hp.mem_iff.1 ((sortBy_perm key l).mem_iff.1 ha)
  exact hinj a ha' b hb (Nat.le_antisymm h1 h2)

theorem pairwise_idxOf (l : List Nat) (h : l.Nodup) :
    l.Pairwise fun a b => l.idxOf a ≤ l.idxOf b := by
  induction l with
  | nil => simp
  | cons x xs ih =>
    have hx := List.nodup_cons.1 h
    refine List.pairwise_cons.2 ⟨fun b _ => by simp, ?_⟩
    apply List.Pairwise.imp_of_mem _ (ih hx.2)
    intro a b ha hb hab
    have ha' : x ≠ a := fun e => hx.1 (e ▸ ha)
    have hb' : x ≠ b := fun e => hx.1 (e ▸ hb)
    rw [List.idxOf_cons_ne _ ha', List.idxOf_cons_ne _ hb']
    omega

theorem findKey_left (lI rI : List Nat) (x : Nat) (h : x ∈ lI) :
    findKey (lI ++ rI) x = lI.idxOf x + 1 := by
  simp [findKey, h, List.idxOf_append]

theorem findKey_right (lI rI : List Nat) (x : Nat) (h : x ∉ lI) (hr : x ∈ rI) :
    findKey (lI ++ rI) x = lI.length + rI.idxOf x + 1 := by
  simp [findKey, h, hr, List.idxOf_append]
  omega

theorem tdOut_sorted (lI rI : List Nat) (hl : lI.Nodup) (hr : rI.Nodup) :
    (tdOut lI rI).Pairwise fun a b => findKey (lI ++ rI) a ≤ findKey (lI ++ rI) b := by
  unfold tdOut
  rw [List.pairwise_append]
  refine ⟨?_, ?_, ?_⟩
  · apply List.Pairwise.imp_of_mem _ ((pairwise_idxOf lI hl).sublist List.filter_sublist)
    intro a b ha hb hab
    rw [findKey_left lI rI a (List.mem_filter.1 ha).1, findKey_left lI rI b (List.mem_filter.1 hb).1]
    omega
  · apply List.Pairwise.imp_of_mem _ ((pairwise_idxOf rI hr).sublist List.filter_sublist)
    intro a b ha hb hab
    have ha' : a ∉ lI := by simpa using (List.mem_filter.1 ha).2
    have hb' : b ∉ lI := by simpa using (List.mem_filter.1 hb).2
    rw [findKey_right lI rI a ha' (List.mem_filter.1 ha).1,
      findKey_right lI rI b hb' (List.mem_filter.1 hb).1]
    omega
  · intro a ha b hb
    have hb' : b ∉ lI := by simpa using (List.mem_filter.1 hb).2
    rw [findKey_left lI rI a (List.mem_filter.1 ha).1,
      findKey_right lI rI b hb' (List.mem_filter.1 hb).1]
    have := List.idxOf_lt_length_of_mem (List.mem_filter.1 ha).1
    omega

theorem findKey_inj_tdOut (lI rI : List Nat) :
    ∀ a ∈ tdOut lI rI, ∀ b ∈ tdOut lI rI,
      findKey (lI ++ rI) a = findKey (lI ++ rI) b → a = b := by
  intro a ha b hb e
  have hma : a ∈ lI ++ rI := by
    rcases (mem_tdOut lI rI a).1 ha with h | h
    · exact List.mem_append_left _ h.1
    · exact List.mem_append_right _ h.1
  have hmb : b ∈ lI ++ rI := by
    rcases (mem_tdOut lI rI b).1 hb with h | h
    · exact List.mem_append_left _ h.1
    · exact List.mem_append_right _ h.1
  simp only [findKey, List.contains_iff_mem, hma, hmb, if_true, Nat.add_right_cancel_iff] at e
  exact (List.idxOf_inj hma).1 e

/-- what the checker needs about the model's `tensordot_perm` -/
theorem tdot_perm_ok (lI rI pI : List Nat) (hl : lI.Nodup) (hr : rI.Nodup) (hp : pI.Nodup)
    (hx : ∀ ix, ix ∈ pI ↔ ix ∈ tdOut lI rI) :
    match tensordotPerm lI rI pI with
    | none => tdOut lI rI = pI
    | some pm => (pm = [] → tdOut lI rI = pI) ∧
        isPermOfRange (tdOut lI rI).length pm = true ∧
        unaryAxes (List.range (tdOut lI rI).length) pm (tdOut lI rI) = .ok pI := by
  have hnd := tdOut_nodup lI rI hl hr
  have hperm : pI.Perm (tdOut lI rI) := (List.perm_ext_iff_of_nodup hp hnd).2 hx
  have htd : sortBy (findKey (lI ++ rI)) pI = tdOut lI rI :=
    sortBy_eq_of_sorted _ pI _ hperm (tdOut_sorted lI rI hl hr) (findKey_inj_tdOut lI rI)
  simp only [tensordotPerm, htd]
  split
  · rename_i h
    split at h
    · rename_i heq
      exact beq_iff_eq.1 heq
    · cases h
  · rename_i pm h
    split at h
    · cases h
    · cases h
      refine ⟨?_, ?_, ?_⟩
      · intro e
        have : pI = [] := List.map_eq_nil_iff.1 e
        subst this
        exact List.Perm.eq_nil hperm.symm
      · simp only [isPermOfRange, List.length_map, hperm.length_eq, beq_self_eq_true, Bool.true_and,
          Bool.and_eq_true, List.all_eq_true, decide_eq_true_eq, nodupB_iff]
        refine ⟨?_, ?_⟩
        · exact List.Nodup.map_on
            (fun a ha b _ e => (List.idxOf_inj ((hx a).1 ha)).1 e) hp
        · intro j hj
          obtain ⟨x, hxm, rfl⟩ := List.mem_map.1 hj
          exact List.idxOf_lt_length_of_mem ((hx x).1 hxm)
      · rw [← map_idxOf_eq_range _ hnd]
        exact unaryAxes_of_labelling (fun x => (tdOut lI rI).idxOf x) (tdOut lI rI) pI
          (fun a ha b _ e => (List.idxOf_inj ha).1 e) (fun p hpm => (hx p).1 hpm) hp

end Cotengra
