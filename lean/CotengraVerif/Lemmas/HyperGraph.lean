import CotengraVerif.Model.HyperGraph
import CotengraVerif.Lemmas.SlicerBasic
import CotengraVerif.Props.C03

/-!
  State lemmas about the `HyperGraph` model (hypergraph.py:235-279): what `remove_node`,
  `add_node`, `contract` do to the two dictionaries, seen through lookups.
-/
namespace Cotengra
open AL HGu

namespace AL
variable {α : Type}

theorem get?_append_not_has (d : List (Nat × α)) (k : Nat) (v : α) (x : Nat) (h : has d k = false) :
    get? (d ++ [(k, v)]) x = if k = x then some v else get? d x := by
  induction d with
  | nil => simp [get?]
  | cons kv t ih =>
    obtain ⟨k', w⟩ := kv
    have hk : ¬ k' = k := by intro e; subst e; simp [has, get?] at h
    have ht : has t k = false := by simpa [has, get?, hk] using h
    by_cases hx : k' = x
    · subst hx
      have : ¬ k = k' := fun e => hk e.symm
      simp [get?, this]
    · simp only [List.cons_append, get?, hx, if_false, ih ht]

end AL

namespace HG

/-- `self.edges[e]` read as a (possibly empty) tuple -/
theorem getEdge_def (h : HG) (e : Ix) : h.getEdge e = (get? h.edges e).getD [] := rfl

/-! ### the loop of `remove_node` -/

theorem removeNode_fold (i : Nat) (inds : List Ix) (ed : List (Ix × List Nat)) (hnd : inds.Nodup)
    (hpres : ∀ e ∈ inds, has ed e = true) :
    ∃ ed', inds.foldl (removeNodeStep i) (some ed) = some ed' ∧
      (∀ e', (get? ed' e').getD [] =
        if e' ∈ inds then ((get? ed e').getD []).filter (· != i) else (get? ed e').getD []) ∧
      (∀ e', has ed' e' =
        if e' ∈ inds then !(((get? ed e').getD []).filter (· != i)).isEmpty else has ed e') := by
  induction inds generalizing ed with
  | nil => exact ⟨ed, rfl, fun _ => by simp, fun _ => by simp⟩
  | cons e t ih =>
    have hnd' := List.nodup_cons.1 hnd
    have hp := hpres e List.mem_cons_self
    obtain ⟨ns, hns⟩ := (has_iff ed e).1 hp
    -- the state after the first edge
    let ed1 := if (ns.filter (· != i)).isEmpty then del ed e else set ed e (ns.filter (· != i))
    have hstep : removeNodeStep i (some ed) e = some ed1 := by
      simp only [removeNodeStep, hns]; rfl
    have hget1 : ∀ e', (get? ed1 e').getD [] =
        if e = e' then ns.filter (· != i) else (get? ed e').getD [] := by
      intro e'
      by_cases hem : (ns.filter (· != i)).isEmpty = true
      · have : ed1 = del ed e := by simp only [ed1, hem, if_true]
        rw [this, get?_del]
        by_cases he : e = e'
        · simp only [he, if_true, Option.getD_none]
          subst he
          exact (List.isEmpty_iff.1 hem).symm
        · simp [he]
      · have : ed1 = set ed e (ns.filter (· != i)) := by simp only [ed1, hem]; rfl
        rw [this, get?_set]
        by_cases he : e = e' <;> simp [he]
    have hhas1 : ∀ e', has ed1 e' = if e = e' then !(ns.filter (· != i)).isEmpty else has ed e' := by
      intro e'
      by_cases hem : (ns.filter (· != i)).isEmpty = true
      · have : ed1 = del ed e := by simp only [ed1, hem, if_true]
        rw [this, has_del]
        by_cases he : e = e' <;> simp [he, hem]
      · have : ed1 = set ed e (ns.filter (· != i)) := by simp only [ed1, hem]; rfl
        rw [this, has_set]
        by_cases he : e = e' <;> simp [he, hem]
    have hpres1 : ∀ e'' ∈ t, has ed1 e'' = true := by
      intro e'' he''
      have : ¬ e = e'' := fun h => hnd'.1 (h ▸ he'')
      rw [hhas1, if_neg this]
      exact hpres e'' (List.mem_cons_of_mem _ he'')
    obtain ⟨ed', hf, hg, hh⟩ := ih ed1 hnd'.2 hpres1
    refine ⟨ed', by simp only [List.foldl_cons, hstep, hf], ?_, ?_⟩
    · intro e'
      rw [hg e', hget1 e']
      by_cases he : e = e'
      · subst he
        have hns' : (get? ed e).getD [] = ns := by rw [hns]; rfl
        simp [hnd'.1, hns']
      · have he' : ¬ e' = e := fun h => he h.symm
        simp only [List.mem_cons, he', false_or, he, if_false]
    · intro e'
      rw [hh e', hhas1 e', hget1 e']
      by_cases he : e = e'
      · subst he
        have hns' : (get? ed e).getD [] = ns := by rw [hns]; rfl
        simp [hnd'.1, hns']
      · have he' : ¬ e' = e := fun h => he h.symm
        simp only [List.mem_cons, he', false_or, he, if_false]

/-! ### the loop of `add_node` -/

theorem addNode_fold (node : Nat) (inds : List Ix) (ed : List (Ix × List Nat)) (hnd : inds.Nodup) :
    let ed' := inds.foldl (fun ed e => set ed e (((get? ed e).getD []) ++ [node])) ed
    (∀ e', (get? ed' e').getD [] = (get? ed e').getD [] ++ (if e' ∈ inds then [node] else [])) ∧
    (∀ e', has ed' e' = (has ed e' || decide (e' ∈ inds))) := by
  induction inds generalizing ed with
  | nil => simp
  | cons e t ih =>
    have hnd' := List.nodup_cons.1 hnd
    simp only [List.foldl_cons]
    obtain ⟨hg, hh⟩ := ih (set ed e (((get? ed e).getD []) ++ [node])) hnd'.2
    constructor
    · intro e'
      rw [hg e', get?_set]
      by_cases he : e = e'
      · subst he
        simp [hnd'.1]
      · have he' : ¬ e' = e := fun h => he h.symm
        simp [he, he']
    · intro e'
      rw [hh e', has_set]
      by_cases he : e = e'
      · subst he; simp
      · have he' : ¬ e' = e := fun h => he h.symm
        simp [he, he']

theorem nextFree_fresh (nodes : List (Nat × List Ix)) (f c : Nat) (h : has nodes c = false) :
    nextFree nodes (f + 1) c = c := by
  simp [nextFree, h]


/-! ### `unique` -/

theorem mem_dedup (l : List Nat) (x : Nat) : x ∈ dedup l ↔ x ∈ l := by
  induction l with
  | nil => simp [dedup]
  | cons a t ih =>
    simp only [dedup, List.mem_cons, List.mem_filter, ih]
    constructor
    · rintro (h | ⟨h, _⟩)
      · exact Or.inl h
      · exact Or.inr h
    · rintro (h | h)
      · exact Or.inl h
      · by_cases e : x = a
        · exact Or.inl e
        · exact Or.inr ⟨h, by simpa using e⟩

theorem nodup_dedup (l : List Nat) : (dedup l).Nodup := by
  induction l with
  | nil => simp [dedup]
  | cons a t ih =>
    simp only [dedup]
    apply List.nodup_cons.2
    refine ⟨?_, ih.filter _⟩
    intro h
    have := (List.mem_filter.1 h).2
    simp at this

/-! ### consistency of the two dictionaries -/

/-- `edges` is the transpose of `nodes`, present keys are non-empty, no node repeats an index -/
structure Cons (h : HG) : Prop where
  mem : ∀ e k, k ∈ h.getEdge e ↔ ∃ inds, get? h.nodes k = some inds ∧ e ∈ inds
  pres : ∀ e, has h.edges e = true ↔ h.getEdge e ≠ []
  nd : ∀ k inds, get? h.nodes k = some inds → inds.Nodup

theorem isEmpty_false_iff {α : Type} (l : List α) : (!l.isEmpty) = true ↔ l ≠ [] := by
  cases l <;> simp

structure RemoveOut (h h1 : HG) (i : Nat) : Prop where
  nodes : ∀ k, get? h1.nodes k = if i = k then none else get? h.nodes k
  edge : ∀ e, h1.getEdge e = (h.getEdge e).filter (· != i)
  cons : Cons h1
  out : h1.output = h.output
  sd : h1.sizeDict = h.sizeDict
  nc : h1.nextCand = h.nextCand

theorem removeNode_spec (h : HG) (i : Nat) (inds : List Ix) (hc : Cons h)
    (hi : get? h.nodes i = some inds) :
    ∃ h1, h.removeNode i = some (inds, h1) ∧ RemoveOut h h1 i := by
  have hnd := hc.nd i inds hi
  have hpres : ∀ e ∈ inds, has h.edges e = true := by
    intro e he
    rw [hc.pres]
    intro hnil
    have : i ∈ h.getEdge e := (hc.mem e i).2 ⟨inds, hi, he⟩
    rw [hnil] at this; cases this
  obtain ⟨ed', hf, hg, hh⟩ := removeNode_fold i inds h.edges hnd hpres
  refine ⟨{ h with nodes := del h.nodes i, edges := ed' }, ?_, ?_⟩
  · simp only [removeNode, hi, hf]
  · have hedge : ∀ e, (get? ed' e).getD [] = (h.getEdge e).filter (· != i) := by
      intro e
      rw [hg e]
      split
      · rfl
      · rename_i hni
        show h.getEdge e = _
        symm
        apply List.filter_eq_self.2
        intro k hk
        have : k ≠ i := by
          intro e'; subst e'
          obtain ⟨inds', h1, h2⟩ := (hc.mem e k).1 hk
          rw [hi] at h1; injection h1 with h1; subst h1
          exact hni h2
        simpa using this
    refine ⟨fun k => get?_del _ _ _, hedge, ⟨?_, ?_, ?_⟩, rfl, rfl, rfl⟩
    · intro e k
      show k ∈ (get? ed' e).getD [] ↔ ∃ inds', get? (del h.nodes i) k = some inds' ∧ e ∈ inds'
      rw [hedge e, List.mem_filter, hc.mem e k, get?_del]
      by_cases hk : i = k
      · subst hk; simp
      · have hk' : ¬ k = i := fun e' => hk e'.symm
        simp [hk, hk']
    · intro e
      show has ed' e = true ↔ (get? ed' e).getD [] ≠ []
      rw [hh e, hedge e]
      split
      · exact isEmpty_false_iff _
      · rename_i hni
        rw [hc.pres e]
        have : (h.getEdge e).filter (· != i) = h.getEdge e := by
          apply List.filter_eq_self.2
          intro k hk
          have : k ≠ i := by
            intro e'; subst e'
            obtain ⟨inds', h1, h2⟩ := (hc.mem e k).1 hk
            rw [hi] at h1; injection h1 with h1; subst h1
            exact hni h2
          simpa using this
        rw [this]
    · intro k inds' hk
      have : get? (del h.nodes i) k = some inds' := hk
      rw [get?_del] at this
      split at this
      · cases this
      · exact hc.nd k inds' this

structure AddOut (h h' : HG) (c : Nat) (inds : List Ix) : Prop where
  nodes : ∀ k, get? h'.nodes k = if c = k then some inds else get? h.nodes k
  edge : ∀ e, h'.getEdge e = h.getEdge e ++ (if e ∈ inds then [c] else [])
  cons : Cons h'
  out : h'.output = h.output
  sd : h'.sizeDict = h.sizeDict
  nc : h'.nextCand = c + 1

theorem addNode_spec (h : HG) (inds : List Ix) (hc : Cons h) (hnd : inds.Nodup)
    (hfresh : has h.nodes h.nextCand = false) :
    (h.addNode inds).1 = h.nextCand ∧ AddOut h (h.addNode inds).2 h.nextCand inds := by
  have hc1 : h.nextNode.1 = h.nextCand := nextFree_fresh _ _ _ hfresh
  have hnodes : (h.addNode inds).2.nodes = h.nodes ++ [(h.nextCand, inds)] := by
    show h.nodes ++ [(h.nextNode.1, inds)] = _
    rw [hc1]
  have hedges : (h.addNode inds).2.edges =
      inds.foldl (fun ed e => set ed e (((get? ed e).getD []) ++ [h.nextCand])) h.edges := by
    show inds.foldl (fun ed e => set ed e (((get? ed e).getD []) ++ [h.nextNode.1])) h.edges = _
    rw [hc1]
  obtain ⟨hg, hh⟩ := addNode_fold h.nextCand inds h.edges hnd
  have hN : ∀ k, get? (h.addNode inds).2.nodes k = if h.nextCand = k then some inds else get? h.nodes k := by
    intro k; rw [hnodes, get?_append_not_has _ _ _ _ hfresh]
  have hE : ∀ e, (h.addNode inds).2.getEdge e = h.getEdge e ++ (if e ∈ inds then [h.nextCand] else []) := by
    intro e
    show (get? (h.addNode inds).2.edges e).getD [] = _
    rw [hedges]; exact hg e
  have hnotin : ∀ e, h.nextCand ∉ h.getEdge e := by
    intro e hm
    obtain ⟨inds', h1, _⟩ := (hc.mem e _).1 hm
    have : has h.nodes h.nextCand = true := (has_iff _ _).2 ⟨inds', h1⟩
    rw [hfresh] at this; cases this
  refine ⟨hc1, hN, hE, ⟨?_, ?_, ?_⟩, rfl, rfl, ?_⟩
  · intro e k
    rw [hE e, hN k, List.mem_append, hc.mem e k]
    by_cases hk : h.nextCand = k
    · subst hk
      have hnone : get? h.nodes h.nextCand = none := by
        unfold has at hfresh
        cases hg' : get? h.nodes h.nextCand <;> simp_all
      constructor
      · rintro (⟨inds', h1, _⟩ | hm)
        · rw [hnone] at h1; cases h1
        · by_cases he : e ∈ inds
          · exact ⟨inds, by simp, he⟩
          · simp [he] at hm
      · rintro ⟨inds', h1, h2⟩
        simp only [if_true, Option.some.injEq] at h1
        subst h1
        right; simp [h2]
    · have hk' : ¬ k = h.nextCand := fun e' => hk e'.symm
      constructor
      · rintro (hm | hm)
        · simpa [hk] using hm
        · by_cases he : e ∈ inds
          · simp [he, hk'] at hm
          · simp [he] at hm
      · rintro ⟨inds', h1, h2⟩
        left; rw [if_neg hk] at h1; exact ⟨inds', h1, h2⟩
  · intro e
    show has (h.addNode inds).2.edges e = true ↔ _
    rw [hedges, hh e, hE e]
    by_cases he : e ∈ inds
    · simp [he]
    · simp [he, hc.pres e]
  · intro k inds' hk
    rw [hN k] at hk
    split at hk
    · injection hk with hk; subst hk; exact hnd
    · exact hc.nd k inds' hk
  · show h.nextNode.1 + 1 = _
    rw [hc1]


structure ContractOut (h h' : HG) (i j : Nat) (ii ij keep : List Ix) : Prop where
  nodes : ∀ k, get? h'.nodes k =
    if h.nextCand = k then some keep else if i = k ∨ j = k then none else get? h.nodes k
  keepNd : keep.Nodup
  keep : ∀ e, e ∈ keep ↔ ((e ∈ ii ∨ e ∈ ij) ∧ ((∃ k, k ≠ i ∧ k ≠ j ∧ k ∈ h.getEdge e) ∨ e ∈ h.output))
  cons : Cons h'
  out : h'.output = h.output
  sd : h'.sizeDict = h.sizeDict
  nc : h'.nextCand = h.nextCand + 1

/-- **`contract(i, j)`** on consistent dictionaries: both nodes disappear, the new node gets the
    next identifier and keeps exactly the indices of `i` or `j` that still sit on another node or
    belong to the output. -/
theorem contract_spec (h : HG) (i j : Nat) (ii ij : List Ix) (hc : Cons h) (hij : i ≠ j)
    (hi : get? h.nodes i = some ii) (hj : get? h.nodes j = some ij)
    (hfresh : has h.nodes h.nextCand = false) :
    ∃ h' keep, h.contract i j = some (h.nextCand, h') ∧ ContractOut h h' i j ii ij keep := by
  obtain ⟨h1, hr1, o1⟩ := removeNode_spec h i ii hc hi
  have hj1 : get? h1.nodes j = some ij := by rw [o1.nodes j, if_neg hij]; exact hj
  obtain ⟨h2, hr2, o2⟩ := removeNode_spec h1 j ij o1.cons hj1
  let keep := dedup ((ii ++ ij).filter fun e => has h2.edges e || h2.output.contains e)
  have hfresh2 : has h2.nodes h2.nextCand = false := by
    rw [o2.nc, o1.nc]
    unfold has
    rw [o2.nodes, o1.nodes]
    unfold has at hfresh
    split
    · rfl
    · split
      · rfl
      · exact hfresh
  obtain ⟨hid, ao⟩ := addNode_spec h2 keep o2.cons (nodup_dedup _) hfresh2
  have hnc2 : h2.nextCand = h.nextCand := by rw [o2.nc, o1.nc]
  refine ⟨(h2.addNode keep).2, keep, ?_, ?_⟩
  · simp only [contract, hr1, hr2]
    show some (h2.addNode keep) = _
    rw [← hnc2, ← hid]
  · have hE2 : ∀ e, h2.getEdge e = ((h.getEdge e).filter (· != i)).filter (· != j) := by
      intro e; rw [o2.edge e, o1.edge e]
    refine ⟨?_, nodup_dedup _, ?_, ao.cons, ?_, ?_, ?_⟩
    · intro k
      rw [ao.nodes k, hnc2, o2.nodes k, o1.nodes k]
      by_cases hk : h.nextCand = k
      · simp [hk]
      · simp only [hk, if_false]
        by_cases hjk : j = k
        · simp [hjk]
        · by_cases hik : i = k
          · simp [hik]
          · simp [hjk, hik]
    · intro e
      show e ∈ dedup _ ↔ _
      rw [mem_dedup, List.mem_filter, List.mem_append, Bool.or_eq_true, o2.cons.pres e, hE2 e, o2.out, o1.out]
      have hne : ((h.getEdge e).filter (· != i)).filter (· != j) ≠ [] ↔
          ∃ k, k ≠ i ∧ k ≠ j ∧ k ∈ h.getEdge e := by
        constructor
        · intro hne
          obtain ⟨k, hk⟩ := List.exists_mem_of_ne_nil _ hne
          have h1 := List.mem_filter.1 hk
          have h2 := List.mem_filter.1 h1.1
          exact ⟨k, by simpa using h2.2, by simpa using h1.2, h2.1⟩
        · rintro ⟨k, h1, h2, h3⟩ hnil
          have : k ∈ ((h.getEdge e).filter (· != i)).filter (· != j) :=
            List.mem_filter.2 ⟨List.mem_filter.2 ⟨h3, by simpa using h1⟩, by simpa using h2⟩
          rw [hnil] at this; cases this
      rw [hne]
      simp only [List.contains_iff_mem]
    · rw [ao.out, o2.out, o1.out]
    · rw [ao.sd, o2.sd, o1.sd]
    · rw [ao.nc, hnc2]

end HG
end Cotengra
