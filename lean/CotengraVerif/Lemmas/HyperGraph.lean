import CotengraVerif.Model.HyperGraph
import CotengraVerif.Props.C03

/-! Lemmas about the `HyperGraph` model (C18, C20) — see below. -/
namespace Cotengra
end Cotengra
