import CotengraVerif.Lemmas.SumEnv
import Mathlib.Data.List.Perm.Subperm

/-!
  `Rep sz D x F`: the array `x`, whose axis `k` is the row-major fusion of the labels `D[k]`,
  holds the values of `F` (a function of label assignments).  One lemma per numpy primitive used by
  `_do_contraction_via_bmm`: transposing, reshaping, (batched) matmul and broadcasting multiply
  act on the descriptor `D` and on `F` as expected.
-/
namespace Cotengra.FA

def gsize (sz : Ix → Nat) (g : List Ix) : Nat := prod (g.map sz)

def fuse (sz : Ix → Nat) (env : Ix → Nat) (g : List Ix) : Nat := ravel (g.map sz) (g.map env)

structure Rep (sz : Ix → Nat) (D : List (List Ix)) (x : FArr) (F : (Ix → Nat) → Int) : Prop where
  shape : x.shape = D.map (gsize sz)
  val : ∀ env, EnvOK sz env → x.get (D.map (fuse sz env)) = F env

@[simp] theorem gsize_nil (sz : Ix → Nat) : gsize sz [] = 1 := rfl
@[simp] theorem gsize_single (sz : Ix → Nat) (i : Ix) : gsize sz [i] = sz i := by simp [gsize]
@[simp] theorem fuse_nil (sz env) : fuse sz env [] = 0 := rfl
@[simp] theorem fuse_single (sz env) (i : Ix) : fuse sz env [i] = env i := by
  simp [fuse, ravel]

theorem gsize_cons (sz : Ix → Nat) (i : Ix) (g : List Ix) : gsize sz (i :: g) = sz i * gsize sz g :=
  rfl

theorem fuse_cons (sz env) (i : Ix) (g : List Ix) :
    fuse sz env (i :: g) = env i * gsize sz g + fuse sz env g := rfl

theorem gsize_append (sz : Ix → Nat) (g1 g2 : List Ix) :
    gsize sz (g1 ++ g2) = gsize sz g1 * gsize sz g2 := by
  simp [gsize, prod_append]

theorem fuse_append (sz env) (g1 g2 : List Ix) :
    fuse sz env (g1 ++ g2) = fuse sz env g1 * gsize sz g2 + fuse sz env g2 := by
  simp only [fuse, gsize, List.map_append]
  exact ravel_append (by simp) _ _

theorem inRange_env {sz env} (h : EnvOK sz env) (g : List Ix) :
    inRange (g.map env) (g.map sz) = true := by
  induction g with
  | nil => rfl
  | cons i r ih => simp [ih, h i]

theorem fuse_lt {sz env} (h : EnvOK sz env) (g : List Ix) : fuse sz env g < gsize sz g :=
  ravel_lt (inRange_env h g)

theorem inRange_fuse {sz env} (h : EnvOK sz env) (D : List (List Ix)) :
    inRange (D.map (fuse sz env)) (D.map (gsize sz)) = true := by
  induction D with
  | nil => rfl
  | cons g r ih => simp [ih, fuse_lt h g]

theorem gsize_flatten (sz : Ix → Nat) (D : List (List Ix)) :
    prod (D.map (gsize sz)) = gsize sz D.flatten := by
  induction D with
  | nil => rfl
  | cons g r ih => simp [ih, gsize_append]

theorem fuse_flatten (sz env) (D : List (List Ix)) :
    ravel (D.map (gsize sz)) (D.map (fuse sz env)) = fuse sz env D.flatten := by
  induction D with
  | nil => rfl
  | cons g r ih =>
    simp only [List.map_cons, ravel, List.flatten_cons, fuse_append, ih, gsize_flatten]

theorem gsize_filter_nt (sz : Ix → Nat) (g : List Ix) :
    gsize sz (g.filter fun i => sz i != 1) = gsize sz g := by
  induction g with
  | nil => rfl
  | cons i r ih =>
    by_cases h1 : sz i = 1
    · simp [List.filter_cons, h1, gsize_cons, ih]
    · have : (sz i != 1) = true := by simp [h1]
      simp [List.filter_cons, this, gsize_cons, ih]

theorem fuse_filter_nt {sz env} (h : EnvOK sz env) (g : List Ix) :
    fuse sz env (g.filter fun i => sz i != 1) = fuse sz env g := by
  induction g with
  | nil => rfl
  | cons i r ih =>
    by_cases h1 : sz i = 1
    · have h0 : env i = 0 := by have := h i; omega
      simp [List.filter_cons, h1, fuse_cons, ih, h0]
    · have : (sz i != 1) = true := by simp [h1]
      simp [List.filter_cons, this, fuse_cons, ih, gsize_filter_nt]

/-! ### permutations -/

theorem isPermOf_perm {p : List Nat} {n : Nat} (h : isPermOf p n = true) : (List.range n).Perm p := by
  simp only [isPermOf, Bool.and_eq_true, beq_iff_eq, List.all_eq_true, List.mem_range,
    List.contains_iff_mem] at h
  apply List.Subperm.perm_of_length_le
  · exact List.nodup_range.subperm fun j hj => h.2 j (List.mem_range.1 hj)
  · simp [h.1]

theorem isPermOf_mem {p : List Nat} {n : Nat} (h : isPermOf p n = true) {j : Nat} (hj : j < n) :
    j ∈ p := by
  simp only [isPermOf, Bool.and_eq_true, beq_iff_eq, List.all_eq_true, List.mem_range,
    List.contains_iff_mem] at h
  exact h.2 j hj

theorem isPermOf_lt {p : List Nat} {n : Nat} (h : isPermOf p n = true) {k : Nat} (hk : k ∈ p) :
    k < n :=
  List.mem_range.1 ((isPermOf_perm h).mem_iff.2 hk)

theorem isPermOf_length {p : List Nat} {n : Nat} (h : isPermOf p n = true) : p.length = n := by
  simp only [isPermOf, Bool.and_eq_true, beq_iff_eq] at h
  exact h.1

/-! ### the primitives -/

theorem rep_transpose {sz D x F} (hx : Rep sz D x F) {p : List Nat}
    (hp : isPermOf p D.length = true) :
    ∃ y, transpose p x = some y ∧ Rep sz (p.map fun k => D.getD k []) y F := by
  have hn : x.shape.length = D.length := by rw [hx.shape]; simp
  simp only [transpose, hn, hp, ↓reduceIte]
  refine ⟨_, rfl, ?_, ?_⟩
  · -- shape
    simp only [List.map_map]
    apply List.map_congr_left
    intro k hk
    have hk' : k < D.length := isPermOf_lt hp hk
    simp [hx.shape, List.getD_eq_getElem?_getD, hk']
  · intro env henv
    simp only
    rw [← hx.val env henv]
    congr 1
    apply List.ext_getElem
    · simp [hn]
    · intro j h1 h2
      simp only [List.length_map, List.length_range] at h1 h2
      have hjp : j ∈ p := isPermOf_mem hp h2
      have hidx : p.idxOf j < p.length := List.idxOf_lt_length_of_mem hjp
      simp only [List.getElem_map, List.getElem_range, List.getD_eq_getElem?_getD, List.map_map]
      rw [List.getElem?_eq_getElem (by simpa using hidx)]
      simp only [List.getElem_map, Function.comp, Option.getD_some, List.getElem_idxOf hidx]
      rw [List.getElem?_eq_getElem h2]
      rfl

theorem rep_reshape {sz D x F} (hx : Rep sz D x F) {D' : List (List Ix)}
    (hD : (D.flatten.filter fun i => sz i != 1) = (D'.flatten.filter fun i => sz i != 1)) :
    ∃ y, reshape (D'.map (gsize sz)) x = some y ∧ Rep sz D' y F := by
  have hsize : prod (D'.map (gsize sz)) = prod x.shape := by
    rw [hx.shape, gsize_flatten, gsize_flatten, ← gsize_filter_nt sz D.flatten,
      ← gsize_filter_nt sz D'.flatten, hD]
  simp only [reshape, hsize, ↓reduceIte]
  refine ⟨_, rfl, rfl, ?_⟩
  intro env henv
  simp only
  rw [← hx.val env henv]
  congr 1
  rw [fuse_flatten, ← fuse_filter_nt henv, ← hD, fuse_filter_nt henv, ← fuse_flatten, hx.shape]
  exact unravel_ravel (inRange_fuse henv D)

end Cotengra.FA

namespace Cotengra.FA

theorem fuse_congr {sz : Ix → Nat} {e1 e2 : Ix → Nat} {g : List Ix} (h : ∀ i ∈ g, e1 i = e2 i) :
    fuse sz e1 g = fuse sz e2 g := by
  induction g with
  | nil => rfl
  | cons i r ih =>
    simp only [fuse_cons, h i (by simp), ih fun j hj => h j (by simp [hj])]

/-- a sum over the fused range of a group is the sum over all assignments of its labels -/
theorem sumTo_gsize {sz : Ix → Nat} {C : List Ix} (hC : C.Nodup) (env : Ix → Nat) (g : Nat → Int) :
    sumTo (gsize sz C) g = sumEnv sz C env fun e => g (fuse sz e C) := by
  induction C generalizing env g with
  | nil => simp [sumEnv_nil]
  | cons i r ih =>
    have hi : i ∉ r := (List.nodup_cons.1 hC).1
    rw [gsize_cons, sumTo_mul, sumEnv_cons]
    apply sumTo_congr
    intro v _
    rw [ih (List.nodup_cons.1 hC).2 (upd env i v)]
    apply sumEnv_congr'
    intro e hag
    simp only [fuse_cons]
    rw [hag i hi, upd_same]

theorem rep_matmul2 {sz K C N a b Fa Fb} (ha : Rep sz [K, C] a Fa) (hb : Rep sz [C, N] b Fb)
    (hC : C.Nodup) (hK : ∀ i ∈ K, i ∉ C) (hN : ∀ i ∈ N, i ∉ C) :
    ∃ y, matmul a b = some y ∧
      Rep sz [K, N] y fun env => sumEnv sz C env fun e => Fa e * Fb e := by
  have hsa := ha.shape
  have hsb := hb.shape
  simp only [List.map_cons, List.map_nil] at hsa hsb
  simp only [matmul, hsa, hsb, ↓reduceIte]
  refine ⟨_, rfl, rfl, ?_⟩
  intro env henv
  simp only [List.map_cons, List.map_nil, List.getD_cons_zero, List.getD_cons_succ]
  rw [sumTo_gsize hC env]
  apply sumEnv_congr henv
  intro e he hag
  have hKe : fuse sz env K = fuse sz e K := fuse_congr fun i hi => (hag i (hK i hi)).symm
  have hNe : fuse sz env N = fuse sz e N := fuse_congr fun i hi => (hag i (hN i hi)).symm
  rw [hKe, hNe]
  have h1 := ha.val e he
  have h2 := hb.val e he
  simp only [List.map_cons, List.map_nil] at h1 h2
  rw [h1, h2]

theorem rep_matmul3 {sz B K C N a b Fa Fb} (ha : Rep sz [B, K, C] a Fa)
    (hb : Rep sz [B, C, N] b Fb)
    (hC : C.Nodup) (hB : ∀ i ∈ B, i ∉ C) (hK : ∀ i ∈ K, i ∉ C) (hN : ∀ i ∈ N, i ∉ C) :
    ∃ y, matmul a b = some y ∧
      Rep sz [B, K, N] y fun env => sumEnv sz C env fun e => Fa e * Fb e := by
  have hsa := ha.shape
  have hsb := hb.shape
  simp only [List.map_cons, List.map_nil] at hsa hsb
  simp only [matmul, hsa, hsb, and_self, ↓reduceIte]
  refine ⟨_, rfl, rfl, ?_⟩
  intro env henv
  simp only [List.map_cons, List.map_nil, List.getD_cons_zero, List.getD_cons_succ]
  rw [sumTo_gsize hC env]
  apply sumEnv_congr henv
  intro e he hag
  have hBe : fuse sz env B = fuse sz e B := fuse_congr fun i hi => (hag i (hB i hi)).symm
  have hKe : fuse sz env K = fuse sz e K := fuse_congr fun i hi => (hag i (hK i hi)).symm
  have hNe : fuse sz env N = fuse sz e N := fuse_congr fun i hi => (hag i (hN i hi)).symm
  rw [hBe, hKe, hNe]
  have h1 := ha.val e he
  have h2 := hb.val e he
  simp only [List.map_cons, List.map_nil] at h1 h2
  rw [h1, h2]

/-- the descriptor of an operand of the broadcasting multiply: one axis per output label, of
    length 1 where the operand does not carry the label -/
def padDesc (p : Ix → Bool) (out : List Ix) : List (List Ix) :=
  out.map fun o => if p o then [o] else []

theorem padDesc_gsize (sz : Ix → Nat) (p : Ix → Bool) (out : List Ix) :
    (padDesc p out).map (gsize sz) = out.map fun o => if p o = true then sz o else 1 := by
  induction out with
  | nil => rfl
  | cons o r ih =>
    simp only [padDesc, List.map_cons] at ih ⊢
    rw [ih]
    by_cases hp : p o = true <;> simp [hp]

theorem bshape_pad {sz : Ix → Nat} {pa pb : Ix → Bool} {out : List Ix}
    (h : ∀ o ∈ out, pa o = true ∨ pb o = true) :
    bshape ((padDesc pa out).map (gsize sz)) ((padDesc pb out).map (gsize sz))
      = some (out.map sz) := by
  rw [padDesc_gsize, padDesc_gsize]
  induction out with
  | nil => rfl
  | cons o r ih =>
    have ihr := ih fun o' ho' => h o' (by simp [ho'])
    simp only [List.map_cons, bshape, ihr, Option.map_some]
    rcases h o (by simp) with h1 | h1
    · by_cases h2 : pb o = true
      · simp [h1, h2]
      · simp only [h1, h2, ↓reduceIte, Bool.false_eq_true]
        by_cases h3 : sz o = 1 <;> simp [h3]
    · by_cases h2 : pa o = true
      · simp [h1, h2]
      · simp [h1, h2]

theorem clip_pad {sz : Ix → Nat} {env} (henv : EnvOK sz env) (p : Ix → Bool) (out : List Ix) :
    clip ((padDesc p out).map (gsize sz)) (out.map env) = (padDesc p out).map (fuse sz env) := by
  rw [padDesc_gsize]
  induction out with
  | nil => rfl
  | cons o r ih =>
    simp only [padDesc, List.map_cons] at ih ⊢
    simp only [clip, ih]
    by_cases hp : p o = true
    · by_cases h1 : sz o = 1
      · have : env o = 0 := by have := henv o; omega
        simp [hp, h1, this]
      · simp [hp, h1]
    · simp [hp]

theorem rep_mul {sz pa pb out a b Fa Fb} (ha : Rep sz (padDesc pa out) a Fa)
    (hb : Rep sz (padDesc pb out) b Fb) (h : ∀ o ∈ out, pa o = true ∨ pb o = true) :
    ∃ y, mul a b = some y ∧ Rep sz (out.map fun o => [o]) y fun env => Fa env * Fb env := by
  simp only [mul, ha.shape, hb.shape, bshape_pad h, Option.map_some]
  refine ⟨_, rfl, ?_, ?_⟩
  · simp [List.map_map, Function.comp_def]
  · intro env henv
    simp only [List.map_map, Function.comp_def, fuse_single]
    rw [clip_pad henv, clip_pad henv, ha.val env henv, hb.val env henv]

/-! ### reading a labelled array at a multi-index -/

theorem bindOut_map_mem (out : List Ix) (env : Ix → Nat) {i : Ix} (hi : i ∈ out) :
    bindOut out (out.map env) i = env i := by
  induction out with
  | nil => simp at hi
  | cons o r ih =>
    simp only [List.map_cons, bindOut]
    by_cases hio : i = o
    · subst hio; simp
    · rw [upd_other _ _ hio]
      exact ih (by simpa [hio] using hi)

theorem map_bindOut {out : List Ix} {idx : List Nat} (hn : out.Nodup)
    (hl : idx.length = out.length) : out.map (bindOut out idx) = idx := by
  induction out generalizing idx with
  | nil => cases idx <;> simp_all
  | cons o r ih =>
    cases idx with
    | nil => simp at hl
    | cons i is =>
      have ho : o ∉ r := (List.nodup_cons.1 hn).1
      simp only [List.map_cons, bindOut, upd_same, List.cons.injEq, true_and]
      have ih' := ih (List.nodup_cons.1 hn).2 (idx := is) (by simpa using hl)
      calc r.map (upd (bindOut r is) o i) = r.map (bindOut r is) :=
            List.map_congr_left fun j hj => upd_other _ _ (by rintro rfl; exact ho hj)
        _ = is := ih'

theorem envOK_bindOut {sz : Ix → Nat} (hpos : ∀ i, 0 < sz i) {out : List Ix} {idx : List Nat}
    (h : inRange idx (out.map sz) = true) : EnvOK sz (bindOut out idx) := by
  induction out generalizing idx with
  | nil => intro i; simp [bindOut, hpos i]
  | cons o r ih =>
    cases idx with
    | nil => simp [inRange] at h
    | cons i is =>
      simp only [List.map_cons, inRange_cons, Bool.and_eq_true, decide_eq_true_eq] at h
      exact (ih h.2).upd h.1

/-- a `Rep` over singleton groups with distinct labels pins the array at every in-range position -/
theorem rep_read {sz} {out : List Ix} {x F} (hx : Rep sz (out.map fun o => [o]) x F) (hpos : ∀ i, 0 < sz i)
    (hn : out.Nodup) {idx : List Nat} (h : inRange idx (out.map sz) = true) :
    x.get idx = F (bindOut out idx) := by
  have hl : idx.length = out.length := by simpa using inRange_length h
  have := hx.val _ (envOK_bindOut hpos h)
  simp only [List.map_map, Function.comp_def, fuse_single] at this
  rw [map_bindOut hn hl] at this
  exact this

theorem rep_shape_single {sz} {out : List Ix} {x F} (hx : Rep sz (out.map fun o => [o]) x F) :
    x.shape = out.map sz := by
  rw [hx.shape]; simp [List.map_map, Function.comp_def]

end Cotengra.FA
