import CotengraVerif.Lemmas.StripRun

/-!
  A zero factor forces a zero result: if some step of a well-formed program forms an all-zero
  intermediate (`max|p| = 0`), every later intermediate that consumes it is all-zero, and so is
  the single live intermediate left at the end.  Hence for an *unsliced* contraction the guard
  "no normalising factor is 0" of `strip_invariant` is implied by "the result is non-zero".
-/
namespace Cotengra.Strip

set_option linter.unusedSectionVars false

variable {α : Type} [Field α] [LinearOrder α] [IsStrictOrderedRing α]

def IsZero (t : Tensor α) : Prop := ∀ x ∈ t.data, x = 0

theorem at_zero (size : Ix → Nat) (t : Tensor α) (h : IsZero t) (a : Asg) : t.at size a = 0 := by
  unfold Tensor.at
  by_cases hp : pos size t.inds a < t.data.length
  · rw [List.getD_eq_getElem _ _ hp]
    exact h _ (List.getElem_mem hp)
  · rw [List.getD_eq_default _ _ (Nat.le_of_not_lt hp)]

theorem sum_zero (L : List α) (h : ∀ x ∈ L, x = 0) : L.sum = 0 := by
  induction L with
  | nil => rfl
  | cons x xs ih =>
    simp only [List.sum_cons]
    rw [h x List.mem_cons_self, ih (fun y hy => h y (List.mem_cons_of_mem _ hy))]
    simp

theorem contract_zero (size : Ix → Nat) (l r : Tensor α) (out : List Ix)
    (h : IsZero l ∨ IsZero r) : IsZero (contract size l r out) := by
  intro x hx
  unfold contract at hx
  simp only [List.mem_map] at hx
  obtain ⟨ao, _, rfl⟩ := hx
  apply sum_zero
  intro y hy
  simp only [List.mem_map] at hy
  obtain ⟨as, _, rfl⟩ := hy
  rcases h with h | h
  · rw [at_zero size l h]; simp
  · rw [at_zero size r h]; simp

theorem reduce1_zero (size : Ix → Nat) (t : Tensor α) (out : List Ix) (h : IsZero t) :
    IsZero (reduce1 size t out) := by
  intro x hx
  unfold reduce1 at hx
  simp only [List.mem_map] at hx
  obtain ⟨ao, _, rfl⟩ := hx
  apply sum_zero
  intro y hy
  simp only [List.mem_map] at hy
  obtain ⟨as, _, rfl⟩ := hy
  exact at_zero size t h _

theorem scale_zero (c : α) (t : Tensor α) (h : IsZero t) : IsZero (scale c t) := by
  intro x hx
  unfold scale at hx
  simp only [List.mem_map] at hx
  obtain ⟨y, hy, rfl⟩ := hx
  rw [h y hy]; simp

/-! ## dictionary lemmas -/

theorem get_erase_ne (T : Temps α) (j k : Nat) (h : k ≠ j) : (T.erase j).get? k = T.get? k := by
  unfold Temps.erase Temps.get?
  induction T with
  | nil => rfl
  | cons kv rest ih =>
    obtain ⟨k', v⟩ := kv
    by_cases hj : k' = j
    · subst hj
      have hk : (k == k') = false := by simpa using h
      simp [List.filter_cons, List.lookup_cons, hk, ih]
    · have hne : (k' != j) = true := by simpa using hj
      simp only [List.filter_cons, hne, if_true, List.lookup_cons]
      by_cases hk : k = k'
      · subst hk; simp
      · have : (k == k') = false := by simpa using hk
        simp only [this]
        exact ih

theorem get_set_self (T : Temps α) (k : Nat) (v : Tensor α) : (T.set k v).get? k = some v := by
  unfold Temps.set Temps.get?
  simp [List.lookup_cons]

theorem get_set_ne (T : Temps α) (j k : Nat) (v : Tensor α) (h : k ≠ j) :
    (T.set j v).get? k = T.get? k := by
  unfold Temps.set
  have : Temps.get? ((j, v) :: T.erase j) k = (T.erase j).get? k := by
    unfold Temps.get?
    have hk : (k == j) = false := by simpa using h
    simp [List.lookup_cons, hk]
  rw [this, get_erase_ne T j k h]

/-- some live intermediate is identically zero -/
def HasZero (P : Temps α) : Prop := ∃ k v, P.get? k = some v ∧ IsZero v

/-- a live zero stays live (or is consumed into a new zero) through every well-formed plain step -/
theorem hasZero_step (size : Ix → Nat) (P P' : Temps α) (st : Step) (hz : HasZero P)
    (hfresh : Fresh (keys P) st) (h : stepPlain size P st = some P') : HasZero P' := by
  obtain ⟨k, v, hk, hv⟩ := hz
  cases st with
  | pre i out =>
    simp only [stepPlain] at h
    cases hx : P.get? i with
    | none => simp [hx] at h
    | some x =>
      simp only [hx, Option.bind_eq_bind, Option.bind_some, Option.pure_def, Option.some.injEq] at h
      subst h
      by_cases hki : k = i
      · subst hki
        rw [hk] at hx
        simp only [Option.some.injEq] at hx
        subst hx
        exact ⟨k, _, get_set_self _ _ _, reduce1_zero size v out hv⟩
      · exact ⟨k, v, by rw [get_set_ne _ _ _ _ hki]; exact hk, hv⟩
  | pair p l r out =>
    simp only [stepPlain] at h
    cases ha : P.get? l with
    | none => simp [ha] at h
    | some a =>
      simp only [ha, Option.bind_eq_bind, Option.bind_some] at h
      cases hb : (P.erase l).get? r with
      | none => simp [hb] at h
      | some b =>
        simp only [hb, Option.bind_some, Option.pure_def, Option.some.injEq] at h
        subst h
        by_cases hkl : k = l
        · subst hkl
          rw [hk] at ha
          simp only [Option.some.injEq] at ha
          subst ha
          exact ⟨p, _, get_set_self _ _ _, contract_zero size v b out (Or.inl hv)⟩
        · by_cases hkr : k = r
          · subst hkr
            rw [get_erase_ne _ _ _ hkl, hk] at hb
            simp only [Option.some.injEq] at hb
            subst hb
            exact ⟨p, _, get_set_self _ _ _, contract_zero size a v out (Or.inr hv)⟩
          · -- k is neither operand: it stays live, and p is fresh so it is not overwritten
            have hk2 : ((P.erase l).erase r).get? k = some v := by
              rw [get_erase_ne _ _ _ hkr, get_erase_ne _ _ _ hkl]; exact hk
            have hkp : k ≠ p := by
              intro e
              subst e
              have : k ∈ keys ((P.erase l).erase r) := mem_keys_of_get _ _ _ hk2
              rw [keys_erase, keys_erase] at this
              exact hfresh this
            exact ⟨k, v, by rw [get_set_ne _ _ _ _ hkp]; exact hk2, hv⟩

theorem keys_stepPlain (size : Ix → Nat) (P P' : Temps α) (st : Step)
    (h : stepPlain size P st = some P') : keys P' = keysStep (keys P) st := by
  cases st with
  | pre i out =>
    simp only [stepPlain] at h
    cases hx : P.get? i with
    | none => simp [hx] at h
    | some x =>
      simp only [hx, Option.bind_eq_bind, Option.bind_some, Option.pure_def, Option.some.injEq] at h
      subst h
      simp only [keys_set, keysStep]
  | pair p l r out =>
    simp only [stepPlain] at h
    cases ha : P.get? l with
    | none => simp [ha] at h
    | some a =>
      simp only [ha, Option.bind_eq_bind, Option.bind_some] at h
      cases hb : (P.erase l).get? r with
      | none => simp [hb] at h
      | some b =>
        simp only [hb, Option.bind_some, Option.pure_def, Option.some.injEq] at h
        subst h
        simp only [keys_set, keysStep, keys_erase]

theorem hasZero_run (size : Ix → Nat) : ∀ (steps : List Step) (P P' : Temps α), HasZero P →
    WF steps (keys P) → runPlain size steps P = some P' → HasZero P' := by
  intro steps
  induction steps with
  | nil =>
    intro P P' hz _ h
    simp only [runPlain, Option.some.injEq] at h
    subst h; exact hz
  | cons st rest ih =>
    intro P P' hz hwf h
    simp only [runPlain] at h
    cases h1 : stepPlain size P st with
    | none => simp [h1] at h
    | some P1 =>
      simp only [h1, Option.bind_some] at h
      have hz1 := hasZero_step size P P1 st hz hwf.1 h1
      have hwf1 : WF rest (keys P1) := by rw [keys_stepPlain size P P1 st h1]; exact hwf.2
      exact ih P1 P' hz1 hwf1 h

/-- the step at which the stripped run first meets a zero factor leaves a zero in the plain run -/
theorem bad_step_hasZero (size : Ix → Nat) (cz : Bool) (c : Nat → α) (P P1 : Temps α)
    (S S1 : SState α) (st : Step) (hinv : Inv c P S)
    (h : stepStrip size cz S st = some S1) (hbad : S1.zero = true ∨ S1.nan = true)
    (hp : stepPlain size P st = some P1) : HasZero P1 := by
  obtain ⟨hrel, _, _, _, hz, hn⟩ := hinv
  have hflags : (S.zero || S.nan) = false := by simp [hz, hn]
  cases st with
  | pre i out =>
    simp only [stepStrip, hflags, Bool.false_eq_true, if_false] at h
    cases hx : S.temps.get? i with
    | none => simp [hx] at h
    | some x =>
      simp only [hx, Option.bind_eq_bind, Option.bind_some, Option.pure_def, Option.some.injEq] at h
      subst h
      simp [hz, hn] at hbad
  | pair p l r out =>
    simp only [stepStrip, hflags, Bool.false_eq_true, if_false] at h
    cases ha : S.temps.get? l with
    | none => simp [ha] at h
    | some a =>
      simp only [ha, Option.bind_eq_bind, Option.bind_some] at h
      cases hb : (S.temps.erase l).get? r with
      | none => simp [hb] at h
      | some b =>
        simp only [hb, Option.bind_some] at h
        by_cases hf : maxAbs (contract size a b out).data = 0
        · -- the plain step writes `scale (c l * c r) (contract a b)`, which is zero
          have hq : IsZero (contract size a b out) := maxAbs_eq_zero _ hf
          simp only [stepPlain, hrel, get_mapScale, ha, Option.map_some, Option.bind_eq_bind,
            Option.bind_some, erase_mapScale, hb, Option.pure_def, Option.some.injEq] at hp
          subst hp
          refine ⟨p, _, get_set_self _ _ _, ?_⟩
          rw [contract_scale]
          exact scale_zero _ _ hq
        · simp only [hf, decide_false, Bool.false_eq_true, if_false, Option.pure_def,
            Option.some.injEq] at h
          subst h
          simp [hz, hn] at hbad

/-- if the stripped run ends flagged (a zero factor was met), the plain run ends with a zero -/
theorem flagged_run_hasZero (size : Ix → Nat) (cz : Bool) : ∀ (steps : List Step) (c : Nat → α)
    (P P' : Temps α) (S S' : SState α), Inv c P S → WF steps (keys S.temps) →
    runStrip size cz steps S = some S' → runPlain size steps P = some P' →
    (S'.zero = true ∨ S'.nan = true) → HasZero P' := by
  intro steps
  induction steps with
  | nil =>
    intro c P P' S S' hinv _ h _ hbad
    simp only [runStrip, Option.some.injEq] at h
    subst h
    rcases hbad with hb | hb
    · rw [hinv.ok.1] at hb; cases hb
    · rw [hinv.ok.2] at hb; cases hb
  | cons st rest ih =>
    intro c P P' S S' hinv hwf h hp hbad
    simp only [runStrip] at h
    simp only [runPlain] at hp
    cases h1 : stepStrip size cz S st with
    | none => simp [h1] at h
    | some S1 =>
      simp only [h1, Option.bind_some] at h
      cases hp1 : stepPlain size P st with
      | none => simp [hp1] at hp
      | some P1 =>
        simp only [hp1, Option.bind_some] at hp
        have hkP : keys P = keys S.temps := by rw [hinv.rel, keys_mapScale]
        by_cases hok1 : S1.zero = false ∧ S1.nan = false
        · obtain ⟨c1, P1', hp1', hinv1, hk1⟩ := step_inv size cz c P S S1 st hinv hwf.1 h1 hok1
          rw [hp1] at hp1'
          simp only [Option.some.injEq] at hp1'
          subst hp1'
          have hwf1 : WF rest (keys S1.temps) := by rw [hk1]; exact hwf.2
          exact ih c1 P1 P' S1 S' hinv1 hwf1 h hp hbad
        · have hbad1 : S1.zero = true ∨ S1.nan = true := by
            by_cases hz : S1.zero = true
            · exact Or.inl hz
            · right
              by_contra hn
              exact hok1 ⟨by simpa using hz, by simpa using hn⟩
          have hz1 := bad_step_hasZero size cz c P P1 S S1 st hinv h1 hbad1 hp1
          have hwf1 : WF rest (keys P1) := by
            rw [keys_stepPlain size P P1 st hp1, hkP]; exact hwf.2
          exact hasZero_run size rest P1 P' hz1 hwf1 hp

end Cotengra.Strip
