import CotengraVerif.Lemmas.HyperGraph

/-!
  The hypergraph replaying a contraction sequence, against the forest of sub-trees it stands for:
  every contracted node carries exactly the leaf-set survivors (L1's characterisation).
-/
namespace Cotengra
open AL HGu

/-- no index repeated inside a tensor (the hypergraph's stated support) -/
def NoRepeat (n : Net) : Prop := ∀ i, (n.term i).Nodup

/-- `e` occurs on a leaf under `s` -/
def Occ (n : Net) (s : BT) (e : Ix) : Prop := ∃ i ∈ s.leaves, e ∈ n.term i
/-- `e` occurs on an input outside `s`, or in the output -/
def Outside (n : Net) (s : BT) (e : Ix) : Prop :=
  (∃ i, i < n.inputs.length ∧ i ∉ s.leaves ∧ e ∈ n.term i) ∨ e ∈ n.output

theorem termRm_nil (n : Net) (i : Nat) : n.termRm [] i = n.term i := by
  unfold Net.termRm
  apply List.filter_eq_self.2
  intro x _; simp

theorem sum_pos_iff (l : List Nat) (f : Nat → Nat) : 0 < (l.map f).sum ↔ ∃ x ∈ l, 0 < f x := by
  induction l with
  | nil => simp
  | cons a t ih =>
    simp only [List.map_cons, List.sum_cons, List.mem_cons, exists_eq_or_imp]
    rw [← ih]; omega

theorem range_perm_split (N : Nat) (ls : List Nat) (hd : ls.Nodup) (hb : ∀ i ∈ ls, i < N) :
    (List.range N).Perm (ls ++ (List.range N).filter (fun i => !ls.contains i)) := by
  apply (List.perm_ext_iff_of_nodup List.nodup_range _).2
  · intro x
    simp only [List.mem_range, List.mem_append, List.mem_filter]
    constructor
    · intro hx
      by_cases h : x ∈ ls
      · exact Or.inl h
      · exact Or.inr ⟨hx, by simpa using h⟩
    · rintro (h | h)
      · exact hb x h
      · exact h.1
  · apply List.nodup_append.2
    refine ⟨hd, List.nodup_range.filter _, ?_⟩
    intro a ha b hb' e
    subst e
    have := (List.mem_filter.1 hb').2
    simp [ha] at this

/-- **survival, for networks without repeated indices**: `ix` survives the sub-contraction `s` iff it
    occurs under `s` and also outside `s` (another input, or the output). -/
theorem surv_iff (n : Net) (hnr : NoRepeat n) (s : BT) (hd : s.leaves.Nodup)
    (hb : ∀ i ∈ s.leaves, i < n.inputs.length) (e : Ix) :
    n.Surv [] s e ↔ (Occ n s e ∧ Outside n s e) := by
  have hcnt : n.cnt [] s e = (s.leaves.map fun i => Net.occ (n.term i) e).sum := by
    unfold Net.cnt
    congr 1
    apply List.map_congr_left
    intro i _; rw [termRm_nil]
  have hpos : 0 < n.cnt [] s e ↔ Occ n s e := by
    rw [hcnt, sum_pos_iff]
    unfold Occ Net.occ
    constructor
    · rintro ⟨i, hi, h⟩; exact ⟨i, hi, List.count_pos_iff.1 h⟩
    · rintro ⟨i, hi, h⟩; exact ⟨i, hi, List.count_pos_iff.2 h⟩
  have hsplit : n.appIn e = n.cnt [] s e +
      (((List.range n.inputs.length).filter (fun i => !s.leaves.contains i)).map
        fun i => Net.occ (n.term i) e).sum := by
    rw [Net.appIn_eq_range, hcnt,
      ((range_perm_split n.inputs.length s.leaves hd hb).map _).sum_eq, List.map_append, List.sum_append]
  have hrest : 0 < (((List.range n.inputs.length).filter (fun i => !s.leaves.contains i)).map
        fun i => Net.occ (n.term i) e).sum + Net.occ n.output e ↔ Outside n s e := by
    unfold Outside
    constructor
    · intro h
      by_cases ho : 0 < Net.occ n.output e
      · exact Or.inr (List.count_pos_iff.1 ho)
      · have : 0 < (((List.range n.inputs.length).filter (fun i => !s.leaves.contains i)).map
            fun i => Net.occ (n.term i) e).sum := by omega
        obtain ⟨i, hi, hp⟩ := (sum_pos_iff _ _).1 this
        have hi' := List.mem_filter.1 hi
        exact Or.inl ⟨i, List.mem_range.1 hi'.1, by simpa using hi'.2, List.count_pos_iff.1 hp⟩
    · rintro (⟨i, h1, h2, h3⟩ | h)
      · have : 0 < (((List.range n.inputs.length).filter (fun i => !s.leaves.contains i)).map
            fun i => Net.occ (n.term i) e).sum :=
          (sum_pos_iff _ _).2 ⟨i, List.mem_filter.2 ⟨List.mem_range.2 h1, by simpa using h2⟩,
            List.count_pos_iff.2 h3⟩
        omega
      · have : 0 < Net.occ n.output e := List.count_pos_iff.2 h
        omega
  unfold Net.Surv Net.app
  rw [← hpos, ← hrest, hsplit]
  omega

/-- what the hypergraph node standing for the sub-tree `s` holds -/
def NodeSem (n : Net) (s : BT) (e : Ix) : Prop :=
  match s with
  | .leaf i => e ∈ n.term i
  | .node l r => n.Surv [] (.node l r) e

/-- the forest the hypergraph's nodes stand for -/
abbrev Forest := List (Nat × BT)

/-- merging two trees of the forest into the new node `new` -/
def forestStep (F : Forest) (i j new : Nat) : Option Forest :=
  match get? F i, get? F j with
  | some a, some b => some (del (del F i) j ++ [(new, .node a b)])
  | _, _ => none

/-- replay a sequence of `contract(i, j)` calls on hypergraph and forest together -/
def runPath : List (Nat × Nat) → HG × Forest → Option (HG × Forest)
  | [], st => some st
  | (i, j) :: rest, (h, F) =>
    if i = j then none else
    match h.contract i j with
    | none => none
    | some (k, h') =>
      match forestStep F i j k with
      | none => none
      | some F' => runPath rest (h', F')

structure Inv (n : Net) (h : HG) (F : Forest) : Prop where
  cons : HG.Cons h
  dom : ∀ k, has F k = has h.nodes k
  sem : ∀ k s inds, get? F k = some s → get? h.nodes k = some inds → ∀ e, e ∈ inds ↔ NodeSem n s e
  disj : ∀ k k' s s', get? F k = some s → get? F k' = some s' → k ≠ k' → ∀ x ∈ s.leaves, x ∉ s'.leaves
  lnd : ∀ k s, get? F k = some s → s.leaves.Nodup ∧ ∀ x ∈ s.leaves, x < n.inputs.length
  cover : ∀ x, x < n.inputs.length → ∃ k s, get? F k = some s ∧ x ∈ s.leaves
  fresh : ∀ k, has h.nodes k = true → k < h.nextCand
  out : h.output = n.output
  sd : h.sizeDict = n.sizes

theorem nodeSem_occ (n : Net) (hnr : NoRepeat n) (s : BT) (hd : s.leaves.Nodup)
    (hb : ∀ i ∈ s.leaves, i < n.inputs.length) (e : Ix) (h : NodeSem n s e) : Occ n s e := by
  cases s with
  | leaf i => exact ⟨i, by simp [BT.leaves], h⟩
  | node l r => exact ((surv_iff n hnr _ hd hb e).1 h).1

theorem nodeSem_of (n : Net) (hnr : NoRepeat n) (s : BT) (hd : s.leaves.Nodup)
    (hb : ∀ i ∈ s.leaves, i < n.inputs.length) (e : Ix) (ho : Occ n s e) (hout : Outside n s e) :
    NodeSem n s e := by
  cases s with
  | leaf i =>
    obtain ⟨i', hi', h⟩ := ho
    simp only [BT.leaves, List.mem_singleton] at hi'
    subst hi'; exact h
  | node l r => exact (surv_iff n hnr _ hd hb e).2 ⟨ho, hout⟩

/-- one `contract(i, j)` keeps the invariant; the new node carries the survivors of the merged
    leaf set -/
theorem inv_step (n : Net) (hnr : NoRepeat n) (h : HG) (F : Forest) (i j : Nat) (hij : i ≠ j)
    (inv : Inv n h F) (a b : BT) (ha : get? F i = some a) (hb : get? F j = some b) :
    ∃ h' F', h.contract i j = some (h.nextCand, h') ∧ forestStep F i j h.nextCand = some F' ∧
      Inv n h' F' ∧ get? F' h.nextCand = some (.node a b) ∧
      (∀ k, k ≠ h.nextCand → get? F' k = if i = k ∨ j = k then none else get? F k) := by
  -- the two operands exist in the hypergraph
  have hhi : has h.nodes i = true := by rw [← inv.dom i]; exact (has_iff _ _).2 ⟨a, ha⟩
  have hhj : has h.nodes j = true := by rw [← inv.dom j]; exact (has_iff _ _).2 ⟨b, hb⟩
  obtain ⟨ii, hii⟩ := (has_iff _ _).1 hhi
  obtain ⟨ij, hjj⟩ := (has_iff _ _).1 hhj
  have hfresh : has h.nodes h.nextCand = false := by
    cases hf : has h.nodes h.nextCand
    · rfl
    · exact absurd (inv.fresh _ hf) (Nat.lt_irrefl _)
  obtain ⟨h', keep, hcon, co⟩ := HG.contract_spec h i j ii ij inv.cons hij hii hjj hfresh
  have hFnew : has (del (del F i) j) h.nextCand = false := by
    rw [has_del, has_del, inv.dom, hfresh]; simp
  let F' := del (del F i) j ++ [(h.nextCand, BT.node a b)]
  have hF' : ∀ k, get? F' k =
      if h.nextCand = k then some (BT.node a b) else if i = k ∨ j = k then none else get? F k := by
    intro k
    show get? (del (del F i) j ++ [(h.nextCand, BT.node a b)]) k = _
    rw [get?_append_not_has _ _ _ _ hFnew, get?_del, get?_del]
    by_cases hk : h.nextCand = k
    · simp [hk]
    · simp only [hk, if_false]
      by_cases hjk : j = k
      · simp [hjk]
      · by_cases hik : i = k
        · simp [hik]
        · simp [hjk, hik]
  have hla := inv.lnd i a ha
  have hlb := inv.lnd j b hb
  have hdis : ∀ x ∈ a.leaves, x ∉ b.leaves := inv.disj i j a b ha hb hij
  have hnd : (BT.node a b).leaves.Nodup :=
    List.nodup_append.2 ⟨hla.1, hlb.1, fun x hx y hy e => hdis x hx (e ▸ hy)⟩
  have hbd : ∀ x ∈ (BT.node a b).leaves, x < n.inputs.length := by
    intro x hx
    rcases List.mem_append.1 hx with h1 | h1
    · exact hla.2 x h1
    · exact hlb.2 x h1
  have hne_i : h.nextCand ≠ i := by intro e; rw [e] at hfresh; rw [hhi] at hfresh; cases hfresh
  have hne_j : h.nextCand ≠ j := by intro e; rw [e] at hfresh; rw [hhj] at hfresh; cases hfresh
  refine ⟨h', F', hcon, by simp only [forestStep, ha, hb]; rfl, ?_, by rw [hF']; simp, ?_⟩
  · refine ⟨co.cons, ?_, ?_, ?_, ?_, ?_, ?_, by rw [co.out, inv.out], by rw [co.sd, inv.sd]⟩
    · -- same key sets
      intro k
      unfold has
      rw [hF' k, co.nodes k]
      by_cases hk : h.nextCand = k
      · simp [hk]
      · simp only [hk, if_false]
        by_cases hik : i = k ∨ j = k
        · simp [hik]
        · simp only [hik, if_false]
          exact inv.dom k
    · -- semantics of every node
      intro k s inds hs hn e
      rw [hF' k] at hs
      rw [co.nodes k] at hn
      by_cases hk : h.nextCand = k
      · -- the new node
        simp only [hk, if_true, Option.some.injEq] at hs hn
        subst hs; subst hn
        rw [co.keep e]
        show _ ↔ n.Surv [] (.node a b) e
        rw [surv_iff n hnr _ hnd hbd e, inv.sem i a ii ha hii e, inv.sem j b ij hb hjj e, inv.out]
        constructor
        · rintro ⟨hab, hout⟩
          refine ⟨?_, ?_⟩
          · rcases hab with h1 | h1
            · obtain ⟨x, hx, hm⟩ := nodeSem_occ n hnr a hla.1 hla.2 e h1
              exact ⟨x, List.mem_append_left _ hx, hm⟩
            · obtain ⟨x, hx, hm⟩ := nodeSem_occ n hnr b hlb.1 hlb.2 e h1
              exact ⟨x, List.mem_append_right _ hx, hm⟩
          · rcases hout with ⟨k', hk1, hk2, hk3⟩ | ho
            · -- another node carries `e`: it stands for a tree disjoint from `a` and `b`
              obtain ⟨inds', hn', he'⟩ := (inv.cons.mem e k').1 hk3
              have hFk : has F k' = true := by rw [inv.dom]; exact (has_iff _ _).2 ⟨inds', hn'⟩
              obtain ⟨s', hs'⟩ := (has_iff _ _).1 hFk
              have hl' := inv.lnd k' s' hs'
              obtain ⟨x, hx, hm⟩ := nodeSem_occ n hnr s' hl'.1 hl'.2 e ((inv.sem k' s' inds' hs' hn' e).1 he')
              refine Or.inl ⟨x, hl'.2 x hx, ?_, hm⟩
              intro hxab
              rcases List.mem_append.1 hxab with h1 | h1
              · exact inv.disj k' i s' a hs' ha hk1 x hx h1
              · exact inv.disj k' j s' b hs' hb hk2 x hx h1
            · exact Or.inr ho
        · rintro ⟨⟨x, hx, hm⟩, hout⟩
          have hout_a : Outside n a e ∨ True := Or.inr trivial
          refine ⟨?_, ?_⟩
          · -- `e` is on the operand whose leaf carries it
            rcases List.mem_append.1 hx with h1 | h1
            · left
              apply nodeSem_of n hnr a hla.1 hla.2 e ⟨x, h1, hm⟩
              rcases hout with ⟨y, hy1, hy2, hy3⟩ | ho
              · exact Or.inl ⟨y, hy1, fun hya => hy2 (List.mem_append_left _ hya), hy3⟩
              · exact Or.inr ho
            · right
              apply nodeSem_of n hnr b hlb.1 hlb.2 e ⟨x, h1, hm⟩
              rcases hout with ⟨y, hy1, hy2, hy3⟩ | ho
              · exact Or.inl ⟨y, hy1, fun hyb => hy2 (List.mem_append_right _ hyb), hy3⟩
              · exact Or.inr ho
          · rcases hout with ⟨y, hy1, hy2, hy3⟩ | ho
            · -- the outside input `y` lives in some other tree of the forest
              left
              obtain ⟨k', s', hs', hys'⟩ := inv.cover y hy1
              have hk'i : k' ≠ i := by
                intro e'; subst e'
                rw [ha] at hs'; injection hs' with hs'; subst hs'
                exact hy2 (List.mem_append_left _ hys')
              have hk'j : k' ≠ j := by
                intro e'; subst e'
                rw [hb] at hs'; injection hs' with hs'; subst hs'
                exact hy2 (List.mem_append_right _ hys')
              have hhk : has h.nodes k' = true := by rw [← inv.dom]; exact (has_iff _ _).2 ⟨s', hs'⟩
              obtain ⟨inds', hn'⟩ := (has_iff _ _).1 hhk
              have hl' := inv.lnd k' s' hs'
              have hsem : NodeSem n s' e := by
                apply nodeSem_of n hnr s' hl'.1 hl'.2 e ⟨y, hys', hy3⟩
                refine Or.inl ⟨x, hbd x hx, ?_, hm⟩
                intro hxs
                rcases List.mem_append.1 hx with h1 | h1
                · exact inv.disj i k' a s' ha hs' (fun e' => hk'i e'.symm) x h1 hxs
                · exact inv.disj j k' b s' hb hs' (fun e' => hk'j e'.symm) x h1 hxs
              exact ⟨k', hk'i, hk'j, (inv.cons.mem e k').2 ⟨inds', hn', (inv.sem k' s' inds' hs' hn' e).2 hsem⟩⟩
            · exact Or.inr ho
      · simp only [hk, if_false] at hs hn
        by_cases hik : i = k ∨ j = k
        · simp [hik] at hs
        · simp only [hik, if_false] at hs hn
          exact inv.sem k s inds hs hn e
    · -- disjointness
      intro k k' s s' hs hs' hkk x hx
      rw [hF' k] at hs
      rw [hF' k'] at hs'
      by_cases hk : h.nextCand = k
      · simp only [hk, if_true, Option.some.injEq] at hs
        subst hs
        have hk' : ¬ h.nextCand = k' := fun e => hkk (hk ▸ e)
        simp only [hk', if_false] at hs'
        by_cases hik : i = k' ∨ j = k'
        · simp [hik] at hs'
        · simp only [hik, if_false] at hs'
          have hik' := not_or.1 hik
          rcases List.mem_append.1 hx with h1 | h1
          · exact inv.disj i k' a s' ha hs' hik'.1 x h1
          · exact inv.disj j k' b s' hb hs' hik'.2 x h1
      · simp only [hk, if_false] at hs
        by_cases hik : i = k ∨ j = k
        · simp [hik] at hs
        · simp only [hik, if_false] at hs
          have hik' := not_or.1 hik
          by_cases hk' : h.nextCand = k'
          · simp only [hk', if_true, Option.some.injEq] at hs'
            subst hs'
            intro hxab
            rcases List.mem_append.1 hxab with h1 | h1
            · exact inv.disj k i s a hs ha (fun e => hik'.1 e.symm) x hx h1
            · exact inv.disj k j s b hs hb (fun e => hik'.2 e.symm) x hx h1
          · simp only [hk', if_false] at hs'
            by_cases hik2 : i = k' ∨ j = k'
            · simp [hik2] at hs'
            · simp only [hik2, if_false] at hs'
              exact inv.disj k k' s s' hs hs' hkk x hx
    · -- leaves of each tree
      intro k s hs
      rw [hF' k] at hs
      by_cases hk : h.nextCand = k
      · simp only [hk, if_true, Option.some.injEq] at hs
        subst hs; exact ⟨hnd, hbd⟩
      · simp only [hk, if_false] at hs
        by_cases hik : i = k ∨ j = k
        · simp [hik] at hs
        · simp only [hik, if_false] at hs
          exact inv.lnd k s hs
    · -- coverage
      intro x hx
      obtain ⟨k, s, hs, hxs⟩ := inv.cover x hx
      by_cases hki : i = k
      · subst hki
        rw [ha] at hs; injection hs with hs; subst hs
        exact ⟨h.nextCand, .node a b, by rw [hF']; simp, List.mem_append_left _ hxs⟩
      · by_cases hkj : j = k
        · subst hkj
          rw [hb] at hs; injection hs with hs; subst hs
          exact ⟨h.nextCand, .node a b, by rw [hF']; simp, List.mem_append_right _ hxs⟩
        · have hkn : ¬ h.nextCand = k := by
            intro e
            have : has F k = true := (has_iff _ _).2 ⟨s, hs⟩
            rw [inv.dom, ← e, hfresh] at this; cases this
          refine ⟨k, s, ?_, hxs⟩
          rw [hF' k, if_neg hkn, if_neg (not_or.2 ⟨hki, hkj⟩)]
          exact hs
    · -- identifiers stay below the counter
      intro k hk
      rw [co.nc]
      unfold has at hk
      rw [co.nodes k] at hk
      by_cases hkn : h.nextCand = k
      · omega
      · simp only [hkn, if_false] at hk
        by_cases hik : i = k ∨ j = k
        · simp [hik] at hk
        · simp only [hik, if_false] at hk
          have := inv.fresh k hk
          omega
  · intro k hk
    rw [hF' k, if_neg (fun e => hk e.symm)]

end Cotengra

namespace Cotengra
open AL HGu

/-! ### the initial hypergraph -/

theorem get?_zipIdx {α : Type} (l : List α) (m k : Nat) :
    get? ((l.zipIdx m).map (fun (ti : α × Nat) => (ti.2, ti.1))) k = if m ≤ k then l[k - m]? else none := by
  induction l generalizing m with
  | nil => simp [get?]
  | cons a t ih =>
    simp only [List.zipIdx_cons, List.map_cons, get?]
    by_cases hk : m = k
    · subst hk; simp
    · rw [if_neg hk, ih (m + 1)]
      by_cases hle : m ≤ k
      · have h1 : m + 1 ≤ k := by omega
        have h2 : k - m = (k - (m + 1)) + 1 := by omega
        rw [if_pos h1, if_pos hle, h2, List.getElem?_cons_succ]
      · have h1 : ¬ m + 1 ≤ k := by omega
        rw [if_neg h1, if_neg hle]

theorem ofInputs_nodes (inputs : List (List Ix)) (output : List Ix) (sizes : List (Ix × Nat)) (k : Nat) :
    get? (HG.ofInputs inputs output sizes).nodes k = inputs[k]? := by
  have := get?_zipIdx inputs 0 k
  simpa [HG.ofInputs] using this

theorem edges_fold (nodes : List (Nat × List Ix)) (hnd : ∀ it ∈ nodes, it.2.Nodup)
    (ed0 : List (Ix × List Nat)) :
    let ed := nodes.foldl (fun ed (it : Nat × List Ix) =>
      it.2.foldl (fun ed e => set ed e (((get? ed e).getD []) ++ [it.1])) ed) ed0
    (∀ e k, k ∈ (get? ed e).getD [] ↔ (k ∈ (get? ed0 e).getD [] ∨ ∃ it ∈ nodes, it.1 = k ∧ e ∈ it.2)) ∧
    (∀ e, has ed e = true ↔ (has ed0 e = true ∨ ∃ it ∈ nodes, e ∈ it.2)) := by
  induction nodes generalizing ed0 with
  | nil => simp
  | cons it t ih =>
    simp only [List.foldl_cons]
    obtain ⟨hg, hh⟩ := HG.addNode_fold it.1 it.2 ed0 (hnd it List.mem_cons_self)
    obtain ⟨ihg, ihh⟩ := ih (fun x hx => hnd x (List.mem_cons_of_mem _ hx))
      (it.2.foldl (fun ed e => set ed e (((get? ed e).getD []) ++ [it.1])) ed0)
    constructor
    · intro e k
      rw [ihg e k, hg e, List.mem_append]
      simp only [List.mem_cons, exists_eq_or_imp]
      by_cases he : e ∈ it.2
      · simp only [he, if_true, List.mem_singleton, and_true]
        constructor
        · rintro ((h | h) | h)
          · exact Or.inl h
          · exact Or.inr (Or.inl h.symm)
          · exact Or.inr (Or.inr h)
        · rintro (h | h | h)
          · exact Or.inl (Or.inl h)
          · exact Or.inl (Or.inr h.symm)
          · exact Or.inr h
      · simp only [he, if_false, List.not_mem_nil, or_false, and_false, false_or]
    · intro e
      rw [ihh e, hh e]
      simp only [List.mem_cons, exists_eq_or_imp, Bool.or_eq_true, decide_eq_true_eq]
      constructor
      · rintro ((h | h) | h)
        · exact Or.inl h
        · exact Or.inr (Or.inl h)
        · exact Or.inr (Or.inr h)
      · rintro (h | h | h)
        · exact Or.inl (Or.inl h)
        · exact Or.inl (Or.inr h)
        · exact Or.inr h

theorem term_of_getElem? (n : Net) (k : Nat) (t : List Ix) (h : n.inputs[k]? = some t) : n.term k = t := by
  unfold Net.term
  rw [List.getD_eq_getElem?_getD, h]; rfl

theorem mem_nodes_iff (inputs : List (List Ix)) (k : Nat) (t : List Ix) :
    (k, t) ∈ (inputs.zipIdx.map (fun (ti : List Ix × Nat) => (ti.2, ti.1))) ↔ inputs[k]? = some t := by
  rw [List.mem_map]
  constructor
  · rintro ⟨⟨t', k'⟩, hm, he⟩
    simp only [Prod.mk.injEq] at he
    obtain ⟨rfl, rfl⟩ := he
    exact List.mem_zipIdx_iff_getElem?.1 hm
  · intro h
    exact ⟨(t, k), List.mem_zipIdx_iff_getElem?.2 h, rfl⟩

/-- the forest of the uncontracted network: one leaf per input -/
def forest0 (N : Nat) : Forest := (List.range N).map (fun i => (i, BT.leaf i))

theorem forest0_get (N k : Nat) : get? (forest0 N) k = if k < N then some (BT.leaf k) else none := by
  unfold forest0
  induction N generalizing k with
  | zero => simp [get?]
  | succ m ih =>
    rw [List.range_succ, List.map_append]
    have hnot : has ((List.range m).map (fun i => (i, BT.leaf i))) m = false := by
      unfold has; rw [ih]; simp
    rw [List.map_cons, List.map_nil, get?_append_not_has _ _ _ _ hnot, ih]
    by_cases hk : m = k
    · subst hk; simp
    · by_cases hlt : k < m
      · have : k < m + 1 := by omega
        simp [hk, hlt, this]
      · have : ¬ k < m + 1 := by omega
        simp [hk, hlt, this]

theorem inv_init (n : Net) (hnr : NoRepeat n) :
    Inv n (HG.ofInputs n.inputs n.output n.sizes) (forest0 n.inputs.length) := by
  have hN : ∀ k, get? (HG.ofInputs n.inputs n.output n.sizes).nodes k = n.inputs[k]? :=
    ofInputs_nodes n.inputs n.output n.sizes
  have hndn : ∀ it ∈ (n.inputs.zipIdx.map (fun (ti : List Ix × Nat) => (ti.2, ti.1))), it.2.Nodup := by
    intro it hit
    obtain ⟨k, t⟩ := it
    have := (mem_nodes_iff n.inputs k t).1 hit
    rw [← term_of_getElem? n k t this]; exact hnr k
  obtain ⟨eg, eh⟩ := edges_fold _ hndn []
  have hed : (HG.ofInputs n.inputs n.output n.sizes).edges =
      (n.inputs.zipIdx.map (fun (ti : List Ix × Nat) => (ti.2, ti.1))).foldl (fun ed (it : Nat × List Ix) =>
        it.2.foldl (fun ed e => set ed e (((get? ed e).getD []) ++ [it.1])) ed) [] := rfl
  have hE : ∀ e k, k ∈ (HG.ofInputs n.inputs n.output n.sizes).getEdge e ↔ ∃ t, n.inputs[k]? = some t ∧ e ∈ t := by
    intro e k
    have := eg e k
    simp only [get?, Option.getD_none, List.not_mem_nil, false_or] at this
    show k ∈ (get? (HG.ofInputs n.inputs n.output n.sizes).edges e).getD [] ↔ _
    rw [hed, this]
    constructor
    · rintro ⟨⟨k', t⟩, hm, rfl, he⟩
      exact ⟨t, (mem_nodes_iff n.inputs k' t).1 hm, he⟩
    · rintro ⟨t, ht, he⟩
      exact ⟨(k, t), (mem_nodes_iff n.inputs k t).2 ht, rfl, he⟩
  refine ⟨⟨?_, ?_, ?_⟩, ?_, ?_, ?_, ?_, ?_, ?_, rfl, rfl⟩
  · intro e k
    rw [hE e k]
    constructor
    · rintro ⟨t, ht, he⟩; exact ⟨t, by rw [hN]; exact ht, he⟩
    · rintro ⟨t, ht, he⟩; exact ⟨t, by rw [← hN]; exact ht, he⟩
  · intro e
    have := eh e
    simp only [has, get?, Option.isSome_none, Bool.false_eq_true, false_or] at this
    show has (HG.ofInputs n.inputs n.output n.sizes).edges e = true ↔ _
    rw [hed]
    unfold has
    rw [this]
    constructor
    · rintro ⟨⟨k, t⟩, hm, he⟩ hnil
      have : k ∈ (HG.ofInputs n.inputs n.output n.sizes).getEdge e :=
        (hE e k).2 ⟨t, (mem_nodes_iff n.inputs k t).1 hm, he⟩
      rw [hnil] at this; cases this
    · intro hne
      obtain ⟨k, hk⟩ := List.exists_mem_of_ne_nil _ hne
      obtain ⟨t, ht, he⟩ := (hE e k).1 hk
      exact ⟨(k, t), (mem_nodes_iff n.inputs k t).2 ht, he⟩
  · intro k inds hk
    rw [hN] at hk
    rw [← term_of_getElem? n k inds hk]; exact hnr k
  · intro k
    unfold has
    rw [forest0_get, hN]
    by_cases hk : k < n.inputs.length
    · simp [hk]
    · simp [hk]
  · intro k s inds hs hn e
    rw [forest0_get] at hs
    split at hs
    · injection hs with hs; subst hs
      rw [hN] at hn
      show e ∈ inds ↔ e ∈ n.term k
      rw [term_of_getElem? n k inds hn]
    · cases hs
  · intro k k' s s' hs hs' hkk x hx
    rw [forest0_get] at hs hs'
    split at hs
    · split at hs'
      · injection hs with hs; injection hs' with hs'; subst hs; subst hs'
        simp only [BT.leaves, List.mem_singleton] at hx ⊢
        omega
      · cases hs'
    · cases hs
  · intro k s hs
    rw [forest0_get] at hs
    split at hs
    · rename_i hk
      injection hs with hs; subst hs
      simp only [BT.leaves, List.nodup_cons, List.not_mem_nil, not_false_eq_true, List.nodup_nil,
        and_self, List.mem_singleton, forall_eq, true_and]
      exact hk
    · cases hs
  · intro x hx
    exact ⟨x, .leaf x, by rw [forest0_get, if_pos hx], by simp [BT.leaves]⟩
  · intro k hk
    show k < n.inputs.length
    unfold has at hk
    rw [hN] at hk
    by_contra hge
    rw [List.getElem?_eq_none (by omega)] at hk
    cases hk

/-- the invariant survives any replayed contraction sequence -/
theorem runPath_inv (n : Net) (hnr : NoRepeat n) (path : List (Nat × Nat)) (h : HG) (F : Forest)
    (h' : HG) (F' : Forest) (inv : Inv n h F) (hrun : runPath path (h, F) = some (h', F')) :
    Inv n h' F' := by
  induction path generalizing h F with
  | nil => simp only [runPath, Option.some.injEq, Prod.mk.injEq] at hrun; rw [← hrun.1, ← hrun.2]; exact inv
  | cons ij rest ih =>
    obtain ⟨i, j⟩ := ij
    unfold runPath at hrun
    split at hrun
    · cases hrun
    · rename_i hij
      split at hrun
      · cases hrun
      · rename_i k h1 hcon
        split at hrun
        · cases hrun
        · rename_i F1 hfs
          -- both operands are in the forest
          have hab : ∃ a b, get? F i = some a ∧ get? F j = some b := by
            unfold forestStep at hfs
            split at hfs
            · rename_i a b ha hb; exact ⟨a, b, ha, hb⟩
            · cases hfs
          obtain ⟨a, b, ha, hb⟩ := hab
          obtain ⟨h2, F2, hc2, hf2, inv2, _, _⟩ := inv_step n hnr h F i j hij inv a b ha hb
          rw [hc2] at hcon
          simp only [Option.some.injEq, Prod.mk.injEq] at hcon
          obtain ⟨hk, hh⟩ := hcon
          subst hk; subst hh
          rw [hf2] at hfs
          simp only [Option.some.injEq] at hfs
          subst hfs
          exact ih h2 F2 inv2 hrun

end Cotengra
