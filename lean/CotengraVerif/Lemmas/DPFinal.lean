import CotengraVerif.Lemmas.DPInv

/-!
  C09, last layer: the initial tables meet the loop invariant, the full table has a single
  entry, and a connected network has an outer-product-free complete tree.
-/
namespace Cotengra
namespace C09
open Cotengra Cotengra.Net Cotengra.Legs Cotengra.DP

/-! ## the initial tables -/

def initRow (g : Net) (i : Nat) : Nat × Entry := (1 <<< i, ⟨initLegs g i, 0, .leaf i⟩)

theorem tab_init_one (g : Net) (n : Nat) : tab (initTabs g n) 1 = (List.range n).map (initRow g) :=
  rfl

theorem tab_init_zero (g : Net) (n : Nat) : tab (initTabs g n) 0 = [] := rfl

theorem tab_init_ge (g : Net) (n j : Nat) (h : 2 ≤ j) : tab (initTabs g n) j = [] := by
  obtain ⟨j', rfl⟩ : ∃ j', j = j' + 2 := ⟨j - 2, by omega⟩
  unfold tab initTabs
  simp only [List.getD_eq_getElem?_getD, List.getElem?_cons_succ, List.getElem?_replicate]
  split <;> rfl

theorem initTabs_length (g : Net) (n : Nat) (hn : 1 ≤ n) : (initTabs g n).length = n + 1 := by
  unfold initTabs
  simp only [List.length_cons, List.length_replicate]
  omega

theorem shift_inj : Function.Injective (fun i : Nat => 1 <<< i) := by
  intro i j h
  simp only at h
  rw [← maskOf_singleton, ← maskOf_singleton] at h
  have := ((maskOf_eq_iff [i] [j]).1 h i).1 (by simp)
  simpa using this

theorem mem_initRows {g : Net} {n : Nat} {x : Nat × Entry}
    (h : x ∈ (List.range n).map (initRow g)) : ∃ i, i < n ∧ x = initRow g i := by
  obtain ⟨i, hi, rfl⟩ := List.mem_map.1 h
  exact ⟨i, List.mem_range.1 hi, rfl⟩

section
variable (g : Net) (obj : Objective) (outer : Bool)

theorem initRow_ok (hg : LeafGuard g) (i : Nat) (hi : i < g.inputs.length) :
    EntryOK g obj outer (initRow g i).1 (initRow g i).2 := by
  refine ⟨⟨by simp [initRow, BT.leaves], ?_⟩, ?_, legsSpec_leaf g hg i hi, rfl, Or.inr trivial⟩
  · intro j hj
    simp only [initRow, BT.leaves, List.mem_singleton] at hj
    subst hj; exact hi
  · show 1 <<< i = maskOf [i]
    rw [maskOf_singleton]

theorem init_tabsOK (hg : LeafGuard g) (n : Nat) (hn : g.inputs.length = n) (hn1 : 1 ≤ n) :
    TabsOK g obj outer n (initTabs g n) := by
  refine ⟨initTabs_length g n hn1, ?_⟩
  intro m
  rcases Nat.lt_trichotomy m 1 with h | h | h
  · have : m = 0 := by omega
    subst this
    rw [tab_init_zero]
    exact ⟨List.nodup_nil, fun x hx => by cases hx⟩
  · subst h
    rw [tab_init_one]
    refine ⟨?_, ?_⟩
    · unfold Table.keys
      rw [List.map_map]
      exact List.Nodup.map shift_inj List.nodup_range
    · intro x hx
      obtain ⟨i, hi, rfl⟩ := mem_initRows hx
      exact ⟨initRow_ok g obj outer hg i (hn ▸ hi), rfl⟩
  · rw [tab_init_ge g n m (by omega)]
    exact ⟨List.nodup_nil, fun x hx => by cases hx⟩

theorem init_base (n : Nat) : Base n (initTabs g n) := by
  intro i hi
  rw [tab_init_one]
  refine ⟨(initRow g i).2, ?_, Nat.le_refl _⟩
  have : (maskOf [i], (initRow g i).2) = initRow g i := by
    rw [maskOf_singleton]; rfl
  rw [this]
  exact List.mem_map.2 ⟨i, List.mem_range.2 hi, rfl⟩

theorem init_loopInv (hg : LeafGuard g) (n : Nat) (hn : g.inputs.length = n) (hn1 : 1 ≤ n) :
    LoopInv g obj outer n (initTabs g n) := by
  refine ⟨init_tabsOK g obj outer hg n hn hn1, init_base g n, ?_⟩
  intro hne
  have h1 : n = 1 := by
    by_contra h
    exact hne (tab_init_ge g n n (by omega))
  subst h1
  refine ⟨0, ?_, base_covers g obj outer 1 0 _ hn (init_base g 1)⟩
  intro y hy
  rw [tab_init_one] at hy
  obtain ⟨i, _, rfl⟩ := mem_initRows hy
  exact Nat.le_refl _

/-! ## the full table has one entry -/

theorem full_perm {t : BT} (h : Full g t) : t.leaves.Perm (List.range g.inputs.length) := by
  apply (List.subperm_of_subset h.1.nodup ?_).perm_of_length_le
  · rw [List.length_range, h.2]
  · intro i hi
    exact List.mem_range.2 (h.1.bound i hi)

theorem full_mask {t : BT} (h : Full g t) : maskOf t.leaves = maskOf (List.range g.inputs.length) :=
  (maskOf_eq_iff _ _).2 fun i => (full_perm g h).mem_iff

/-- from the loop invariant at exit to the statement of optimality -/
theorem result_optimal (n : Nat) (hn : g.inputs.length = n) (tabs : List Table)
    (hinv : LoopInv g obj outer n tabs) (hne : tab tabs n ≠ []) :
    ∃ e, single (tab tabs n) = some e ∧ Full g e.tree ∧ Adm g outer e.tree ∧
      e.score = treeCost g obj e.tree ∧ LegsSpec g e.tree e.legs ∧
      ∀ t', Full g t' → Adm g outer t' → treeCost g obj e.tree ≤ treeCost g obj t' := by
  have hT := hinv.ok.2 n
  have hfull : ∀ x ∈ tab tabs n, Full g x.2.tree := fun x hx =>
    ⟨(hT.2 x hx).1.valid, (hT.2 x hx).2.trans hn.symm⟩
  have hkeys : ∀ x ∈ tab tabs n, x.1 = maskOf (List.range g.inputs.length) := fun x hx => by
    rw [(hT.2 x hx).1.key, full_mask g (hfull x hx)]
  obtain ⟨e, he⟩ := Table.eq_singleton_of_keys hne hT.1 _ hkeys
  have hmem : (maskOf (List.range g.inputs.length), e) ∈ tab tabs n := by rw [he]; simp
  have hok := (hT.2 _ hmem).1
  refine ⟨e, by rw [he]; rfl, hfull _ hmem, hok.adm, hok.score, hok.legs, ?_⟩
  intro t' hf' ha'
  obtain ⟨C, hsc, hcov⟩ := hinv.fin hne
  have hs : e.score = treeCost g obj e.tree := hok.score
  rw [← hs]
  by_cases hle : treeCost g obj t' ≤ C
  · obtain ⟨e', he', hs'⟩ := hcov t' hf'.1 ha' (hf'.2.trans hn) hle
    rw [he] at he'
    simp only [List.mem_singleton, Prod.mk.injEq] at he'
    rw [← he'.2]; exact hs'
  · have : e.score ≤ C := hsc _ hmem
    omega

end

/-! ## connectivity -/

/-- no non-trivial cut of the tensors is empty: for every proper non-empty set `S` of tensors some
    index sits on a tensor inside `S` and on a tensor outside -/
def Connected (g : Net) : Prop :=
  ∀ S : List Nat, S.Nodup → (∀ i ∈ S, i < g.inputs.length) → S ≠ [] →
    S.length < g.inputs.length →
    ∃ ix i j, i ∈ S ∧ j < g.inputs.length ∧ j ∉ S ∧ ix ∈ g.term i ∧ ix ∈ g.term j

theorem cnt_pos_of_mem (g : Net) (t : BT) (i ix : Nat) (hi : i ∈ t.leaves) (hix : ix ∈ g.term i) :
    0 < g.cnt [] t ix := by
  unfold cnt
  have h1 : occ (g.termRm [] i) ix ∈ t.leaves.map (fun i => occ (g.termRm [] i) ix) :=
    List.mem_map.2 ⟨i, hi, rfl⟩
  have h2 : 0 < occ (g.termRm [] i) ix := by
    rw [termRm_nil]; exact List.count_pos_iff.2 hix
  have := List.single_le_sum (fun x _ => Nat.zero_le x) _ h1
  omega

/-- growing a caterpillar along non-empty cuts -/
theorem connected_caterpillar (g : Net) (hc : Connected g) (hn1 : 1 ≤ g.inputs.length) :
    ∀ k, 1 ≤ k → k ≤ g.inputs.length → ∃ t, Valid g t ∧ t.leaves.length = k ∧ OPF g t := by
  intro k
  induction k with
  | zero => intro h; omega
  | succ k ih =>
    intro _ hk
    by_cases hk0 : k = 0
    · subst hk0
      exact ⟨.leaf 0, ⟨by simp [BT.leaves], fun i hi => by simp [BT.leaves] at hi; omega⟩,
        by simp [BT.leaves], trivial⟩
    · obtain ⟨t, hv, hlen, hopf⟩ := ih (by omega) (by omega)
      obtain ⟨ix, i, j, hi, hj, hjS, hixi, hixj⟩ :=
        hc t.leaves hv.nodup hv.bound (leaves_ne_nil t) (by omega)
      have hv' : Valid g (.node t (.leaf j)) := by
        refine ⟨?_, ?_⟩
        · simp only [BT.leaves]
          refine List.nodup_append.2 ⟨hv.nodup, by simp, ?_⟩
          intro a ha b hb hab
          simp only [List.mem_singleton] at hb
          subst hb; subst hab; exact hjS ha
        · intro a ha
          simp only [BT.leaves, List.mem_append, List.mem_singleton] at ha
          rcases ha with ha | ha
          · exact hv.bound a ha
          · subst ha; exact hj
      refine ⟨.node t (.leaf j), hv', by simp [BT.leaves, hlen], hopf, trivial, ix, ?_, ?_⟩
      · have h1 := cnt_pos_of_mem g t i ix hi hixi
        have h2 := cnt_pos_of_mem g (.leaf j) j ix (by simp [BT.leaves]) hixj
        have h3 := cnt_le_app g _ hv' ix
        rw [cnt_node] at h3
        exact ⟨h1, by omega⟩
      · have h1 := cnt_pos_of_mem g t i ix hi hixi
        have h2 := cnt_pos_of_mem g (.leaf j) j ix (by simp [BT.leaves]) hixj
        have h3 := cnt_le_app g _ hv' ix
        rw [cnt_node] at h3
        exact ⟨h2, by omega⟩

end C09
end Cotengra
