import CotengraVerif.Lemmas.RecipesOK
import CotengraVerif.Lemmas.Cost
import CotengraVerif.Props.C03

/-!
  The model's own extraction passes the admissibility checker.

  Index-level facts come from L1 (`Net.mem_legs_iff_surv`): the index list of every non-root
  node is, as a set, the set of indices surviving its leaf set; therefore every index of a
  child that is missing in the parent is closed in the parent, every index of the parent comes
  from a child, and the root (declared output) is produced from its children.
-/
namespace Cotengra
open Cotengra.Net Cotengra.Legs

/-- `t` is a complete tree over the inputs of `n` -/
def Complete (n : Net) (t : BT) : Prop := t.leaves.Perm (List.range n.inputs.length)

/-- what the real code requires of the declared output (as `numpy.einsum` does): no repeated
    output index, every output index occurs in some input -/
structure Guards (n : Net) : Prop where
  out_nodup : n.output.Nodup
  out_occurs : ∀ ix ∈ n.output, ∃ i, i < n.inputs.length ∧ ix ∈ n.term i

/-- an admissible table of per-node index orders: leaves and root are fixed by the network,
    every other node carries some ordering of its legs -/
structure IndsOK (n : Net) (rm : List Ix) (t : BT) (I : BT → List Ix) : Prop where
  leaf : ∀ i, I (.leaf i) = keys (n.leafLegs rm i)
  root : I t = n.outRm rm
  inner : ∀ s ∈ t.internal, s ≠ t → (I s).Perm (keys (n.legs rm s))

/-! ### structure of internal nodes -/

theorem internal_child_left (t l r : BT) (h : BT.node l r ∈ t.internal) (l1 l2 : BT)
    (hl : l = .node l1 l2) : l ∈ t.internal := by
  induction t with
  | leaf i => cases h
  | node a b iha ihb =>
    simp only [BT.internal, List.mem_append, List.mem_singleton] at h ⊢
    rcases h with (h | h) | h
    · exact Or.inl (Or.inl (iha h))
    · exact Or.inl (Or.inr (ihb h))
    · cases h
      subst hl
      left; left
      simp [BT.internal]

theorem internal_child_right (t l r : BT) (h : BT.node l r ∈ t.internal) (r1 r2 : BT)
    (hr : r = .node r1 r2) : r ∈ t.internal := by
  induction t with
  | leaf i => cases h
  | node a b iha ihb =>
    simp only [BT.internal, List.mem_append, List.mem_singleton] at h ⊢
    rcases h with (h | h) | h
    · exact Or.inl (Or.inl (iha h))
    · exact Or.inl (Or.inr (ihb h))
    · cases h
      subst hr
      left; right
      simp [BT.internal]

theorem leaves_length_pos (s : BT) : 0 < s.leaves.length :=
  List.length_pos_iff.2 (BT.leaves_ne_nil s)

theorem internal_proper (t s : BT) (h : s ∈ t.internal) (hne : s ≠ t) :
    s.leaves.length < t.leaves.length := by
  cases t with
  | leaf i => cases h
  | node a b =>
    simp only [BT.internal, List.mem_append, List.mem_singleton] at h
    simp only [BT.leaves, List.length_append]
    rcases h with (h | h) | h
    · have := (C03.internal_leaves_sublist a s h).length_le
      have := leaves_length_pos b
      omega
    · have := (C03.internal_leaves_sublist b s h).length_le
      have := leaves_length_pos a
      omega
    · exact absurd h hne

section
variable (n : Net) (rm : List Ix) (t : BT) (hc : Complete n t)
include hc

theorem complete_nodup : t.leaves.Nodup := hc.nodup_iff.2 List.nodup_range

theorem complete_inrange : ∀ i ∈ t.leaves, i < n.inputs.length :=
  fun i hi => List.mem_range.1 (hc.mem_iff.1 hi)

theorem complete_length : t.leaves.length = n.inputs.length := by
  rw [hc.length_eq, List.length_range]

theorem sub_nodup (s : BT) (hs : s.leaves.Sublist t.leaves) : s.leaves.Nodup :=
  (complete_nodup n t hc).sublist hs

theorem sub_inrange (s : BT) (hs : s.leaves.Sublist t.leaves) :
    ∀ i ∈ s.leaves, i < n.inputs.length :=
  fun i hi => complete_inrange n t hc i (hs.subset hi)

/-- all appearances of a non-removed index in the inputs are under the root -/
theorem cnt_root (ix : Ix) (hrm : ix ∉ rm) : n.cnt rm t ix = n.appIn ix := by
  have h1 : n.cnt rm t ix = n.cntL rm (List.range n.inputs.length) ix := cntL_perm n rm hc ix
  rw [h1, appIn_eq_range]
  unfold cntL
  congr 1
  apply List.map_congr_left
  intro i _
  unfold termRm occ
  apply List.count_filter
  simpa using hrm

end

/-- the facts about one pairwise step that the checker asks for -/
structure StepFacts (n : Net) (rm : List Ix) (s l r : BT) (I : BT → List Ix) : Prop where
  sub : ∀ ix ∈ I s, ix ∈ I l ++ I r
  nodup : (I s).Nodup
  closed : ∀ ix ∈ I l ++ I r, ix ∉ I s → n.cntL rm s.leaves ix = n.app ix
  left : ∀ ix, ix ∈ I l ↔ n.Surv rm l ix
  right : ∀ ix, ix ∈ I r ↔ n.Surv rm r ix
  nodupL : (I l).Nodup
  nodupR : (I r).Nodup

theorem child_inds (n : Net) (rm : List Ix) (t : BT) (hc : Complete n t) (I : BT → List Ix)
    (hI : IndsOK n rm t I) (c : BT) (hsub : c.leaves.Sublist t.leaves)
    (hlt : c.leaves.length < t.leaves.length)
    (hmem : ∀ c1 c2, c = .node c1 c2 → c ∈ t.internal) :
    (I c).Perm (keys (n.legs rm c)) := by
  cases c with
  | leaf i => rw [hI.leaf i]; exact List.Perm.refl _
  | node c1 c2 =>
    apply hI.inner _ (hmem c1 c2 rfl)
    intro e
    rw [e] at hlt
    exact Nat.lt_irrefl _ hlt

theorem stepFacts (n : Net) (rm : List Ix) (t : BT) (hc : Complete n t) (G : Guards n)
    (I : BT → List Ix) (hI : IndsOK n rm t I) (l r : BT) (hs : BT.node l r ∈ t.internal) :
    StepFacts n rm (.node l r) l r I := by
  have hsub := C03.internal_leaves_sublist t _ hs
  have hsubl : l.leaves.Sublist t.leaves := (List.sublist_append_left _ _).trans hsub
  have hsubr : r.leaves.Sublist t.leaves := (List.sublist_append_right _ _).trans hsub
  have hlen : (BT.node l r).leaves.length ≤ t.leaves.length := hsub.length_le
  have hll : l.leaves.length < t.leaves.length := by
    simp only [BT.leaves, List.length_append] at hlen
    have := leaves_length_pos r
    omega
  have hlr : r.leaves.length < t.leaves.length := by
    simp only [BT.leaves, List.length_append] at hlen
    have := leaves_length_pos l
    omega
  have hdl := sub_nodup n t hc l hsubl
  have hdr := sub_nodup n t hc r hsubr
  have hds := sub_nodup n t hc _ hsub
  have hbl := sub_inrange n t hc l hsubl
  have hbr := sub_inrange n t hc r hsubr
  have hbs := sub_inrange n t hc _ hsub
  have pl := child_inds n rm t hc I hI l hsubl hll
    (fun c1 c2 e => internal_child_left t l r hs c1 c2 e)
  have pr := child_inds n rm t hc I hI r hsubr hlr
    (fun c1 c2 e => internal_child_right t l r hs c1 c2 e)
  have hleft : ∀ ix, ix ∈ I l ↔ n.Surv rm l ix := fun ix => by
    rw [pl.mem_iff, mem_legs_iff_surv n rm l hdl hbl]
  have hright : ∀ ix, ix ∈ I r ↔ n.Surv rm r ix := fun ix => by
    rw [pr.mem_iff, mem_legs_iff_surv n rm r hdr hbr]
  have hcnt : ∀ ix, n.cnt rm (.node l r) ix = n.cnt rm l ix + n.cnt rm r ix := cnt_node n rm l r
  have hle : ∀ ix, n.cnt rm (.node l r) ix ≤ n.appIn ix :=
    fun ix => cnt_le_appIn n rm _ hds hbs ix
  have hcl : ∀ ix, n.cntL rm (BT.node l r).leaves ix = n.cnt rm (.node l r) ix := fun _ => rfl
  have hndl : (I l).Nodup := pl.nodup_iff.2 (keys_nodup_legs n rm l)
  have hndr : (I r).Nodup := pr.nodup_iff.2 (keys_nodup_legs n rm r)
  by_cases hroot : BT.node l r = t
  · -- the root: its list is the declared output
    have hIs : I (.node l r) = n.outRm rm := hroot ▸ hI.root
    refine ⟨?_, ?_, ?_, hleft, hright, hndl, hndr⟩
    · intro ix hix
      rw [hIs] at hix
      obtain ⟨hout, hnrm⟩ := List.mem_filter.1 hix
      have hnrm' : ix ∉ rm := by simpa using hnrm
      obtain ⟨i, hi, hterm⟩ := G.out_occurs ix hout
      have hpos : 0 < n.cnt rm (.node l r) ix := by
        rw [hroot, cnt_root n rm t hc ix hnrm', appIn_eq_range]
        apply Nat.pos_of_ne_zero
        intro hz
        rw [List.sum_eq_zero_iff] at hz
        have := hz _ (List.mem_map.2 ⟨i, List.mem_range.2 hi, rfl⟩)
        exact (List.count_eq_zero.1 this) hterm
      have happ : n.appIn ix < n.app ix := by
        unfold app occ
        have := List.count_pos_iff.2 hout
        omega
      rw [hcnt] at hpos
      have h1 := cnt_le_appIn n rm l hdl hbl ix
      have h2 := cnt_le_appIn n rm r hdr hbr ix
      rw [List.mem_append, hleft, hright]
      unfold Surv
      by_cases h : 0 < n.cnt rm l ix
      · exact Or.inl ⟨h, by omega⟩
      · exact Or.inr ⟨by omega, by omega⟩
    · rw [hIs]; exact G.out_nodup.filter _
    · intro ix hix hno
      rw [hIs] at hno
      rw [hcl]
      -- ix occurs under a child, so it is not removed; not in outRm, so not an output index
      have hpos : 0 < n.cnt rm (.node l r) ix := by
        rw [hcnt]
        rcases List.mem_append.1 hix with h | h
        · have := ((hleft ix).1 h).1; omega
        · have := ((hright ix).1 h).1; omega
      have hnrm : ix ∉ rm := by
        intro hrm
        have hz : n.cnt rm (.node l r) ix = 0 := by
          unfold cnt
          apply List.sum_eq_zero
          intro x hx
          obtain ⟨i, _, rfl⟩ := List.mem_map.1 hx
          unfold occ termRm
          apply List.count_eq_zero.2
          intro hm
          have := (List.mem_filter.1 hm).2
          simp [hrm] at this
        omega
      have hnout : ix ∉ n.output := by
        intro ho
        exact hno (List.mem_filter.2 ⟨ho, by simpa using hnrm⟩)
      rw [hroot, cnt_root n rm t hc ix hnrm]
      unfold app occ
      rw [List.count_eq_zero.2 hnout]
      rfl
  · -- an inner node: its list is an ordering of its legs
    have ps := hI.inner _ hs hroot
    have hself : ∀ ix, ix ∈ I (.node l r) ↔ n.Surv rm (.node l r) ix := fun ix => by
      rw [ps.mem_iff, mem_legs_iff_surv n rm _ hds hbs]
    refine ⟨?_, ps.nodup_iff.2 (keys_nodup_legs n rm _), ?_, hleft, hright, hndl, hndr⟩
    · intro ix hix
      obtain ⟨h1, h2⟩ := (hself ix).1 hix
      rw [hcnt] at h1 h2
      rw [List.mem_append, hleft, hright]
      unfold Surv
      by_cases h : 0 < n.cnt rm l ix
      · exact Or.inl ⟨h, by omega⟩
      · exact Or.inr ⟨by omega, by omega⟩
    · intro ix hix hno
      rw [hcl]
      have hns : ¬ n.Surv rm (.node l r) ix := fun h => hno ((hself ix).2 h)
      unfold Surv at hns
      have hpos : 0 < n.cnt rm (.node l r) ix := by
        rw [hcnt]
        rcases List.mem_append.1 hix with h | h
        · have := ((hleft ix).1 h).1; omega
        · have := ((hright ix).1 h).1; omega
      have := hle ix
      unfold app at *
      omega

/-- the einsum recipe of the model is accepted for every internal node -/
theorem einsum_recipe_ok (n : Net) (rm : List Ix) (s l r : BT) (I : BT → List Ix)
    (F : StepFacts n rm s l r I) :
    recipeAxes n rm s.leaves
      (Recipe.einsum (einsumEq (I l) (I r) (I s)).1 (einsumEq (I l) (I r) (I s)).2.1
        (einsumEq (I l) (I r) (I s)).2.2) (I l) (I r) = .ok (I s) := by
  simp only [recipeAxes, einsumEq_ok (I l) (I r) (I s) F.sub F.nodup]
  have : n.closedCheck rm s.leaves (I l ++ I r) (I s) = true :=
    (closedCheck_iff n rm _ _ _).2 F.closed
  simp [this]

end Cotengra
