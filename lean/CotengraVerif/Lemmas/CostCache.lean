import CotengraVerif.Model.CostCache
import CotengraVerif.Lemmas.TreeState
import CotengraVerif.Lemmas.MaxCounter

/-!
  Lazy cost getters return the from-scratch values and keep the cache coherent.
-/
namespace Cotengra
open Cotengra.Net Cotengra.Legs

namespace Legs

/-- two legs dictionaries are the same finite map with positive counts (order may differ) -/
structure Equiv (L M : Legs) : Prop where
  ndL : (keys L).Nodup
  ndM : (keys M).Nodup
  posL : Pos L
  posM : Pos M
  get : ∀ ix, Legs.get L ix = Legs.get M ix

theorem Equiv.refl (L : Legs) (h1 : (keys L).Nodup) (h2 : Pos L) : Equiv L L :=
  ⟨h1, h1, h2, h2, fun _ => rfl⟩

theorem Equiv.mem_iff {L M : Legs} (h : Equiv L M) (ix : Ix) : ix ∈ keys L ↔ ix ∈ keys M := by
  rw [mem_keys_iff_get_pos L h.ndL h.posL, mem_keys_iff_get_pos M h.ndM h.posM, h.get ix]

theorem Equiv.union {a a' b b' : Legs} (ha : Equiv a a') (hb : Equiv b b') :
    Equiv (Legs.union a b) (Legs.union a' b') :=
  ⟨keys_nodup_union _ _ ha.ndL, keys_nodup_union _ _ ha.ndM, pos_union _ _ ha.posL hb.posL,
   pos_union _ _ ha.posM hb.posM, fun ix => by
     rw [get_union _ _ hb.ndL, get_union _ _ hb.ndM, ha.get ix, hb.get ix]⟩

theorem Equiv.filter {a a' : Legs} (p : Ix × Nat → Bool) (ha : Equiv a a') :
    Equiv (a.filter p) (a'.filter p) :=
  ⟨keys_nodup_filter _ _ ha.ndL, keys_nodup_filter _ _ ha.ndM, pos_filter _ _ ha.posL,
   pos_filter _ _ ha.posM, fun ix => by
     rw [get_filter _ _ ha.ndL, get_filter _ _ ha.ndM, ha.get ix]⟩

end Legs

namespace Net

theorem sizeOfLegs_equiv (n : Net) {L M : Legs} (h : Legs.Equiv L M) :
    n.sizeOfLegs L = n.sizeOfLegs M := by
  rw [sizeOfLegs_eq_prod, sizeOfLegs_eq_prod]
  apply List.Perm.prod_eq
  apply List.Perm.map
  rw [List.perm_ext_iff_of_nodup h.ndL h.ndM]
  exact h.mem_iff

/-- is `s` the root of a network with `n.inputs.length` tensors (the test `len(node) == self.N`) -/
def isRoot (n : Net) (s : BT) : Bool :=
  match s with
  | .leaf _ => false
  | .node l r => (BT.node l r).leaves.length == n.inputs.length

/-- the value `get_legs` is supposed to return -/
def LegsOK (n : Net) (rm : List Ix) (s : BT) (L : Legs) : Prop :=
  if n.isRoot s then L = n.rootLegs rm else Legs.Equiv L (n.legs rm s)

/-- coherence of a cache: every cached field is the from-scratch value -/
structure Coherent (n : Net) (rm : List Ix) (I : Info) : Prop where
  legs : ∀ s L, (I.get s).legs = some L → n.LegsOK rm s L
  involved : ∀ s inv, (I.get s).involved = some inv →
    ∃ l r, s = .node l r ∧ Legs.Equiv inv (n.involved rm s)
  size : ∀ s z, (I.get s).size = some z →
    z = n.sizeOfLegs (if n.isRoot s then n.rootLegs rm else n.legs rm s)
  flops : ∀ s f, (I.get s).flops = some f → ∃ l r, s = .node l r ∧ f = n.nodeFlops rm s

end Net

namespace Info

theorem find_map_ne (I : Info) (p q : BT) (v : NInfo) (hq : ¬ q = p) :
    (I.map (fun e => if e.1 = p then (p, v) else e)).find? (fun e => decide (e.1 = q)) =
      I.find? (fun e => decide (e.1 = q)) := by
  have hpq : ¬ p = q := fun c => hq c.symm
  induction I with
  | nil => rfl
  | cons e t ih =>
    by_cases he : e.1 = p
    · have hne : ¬ e.1 = q := by rw [he]; exact hpq
      simp only [List.map_cons, he, if_true, List.find?, hpq, hne, decide_false]
      exact ih
    · by_cases heq : e.1 = q
      · simp [List.find?, heq, hq]
      · simp only [List.map_cons, he, if_false, List.find?, heq, decide_false]
        exact ih

theorem find_map_eq (I : Info) (p : BT) (v : NInfo) (hany : I.any (fun e => decide (e.1 = p)) = true) :
    (I.map (fun e => if e.1 = p then (p, v) else e)).find? (fun e => decide (e.1 = p)) = some (p, v) := by
  induction I with
  | nil => simp at hany
  | cons e t ih =>
    by_cases he : e.1 = p
    · simp [List.map_cons, he, List.find?]
    · have hany' : t.any (fun e => decide (e.1 = p)) = true := by
        simpa [List.any_cons, he] using hany
      simp only [List.map_cons, he, if_false, List.find?, decide_false]
      exact ih hany'

theorem get_set (I : Info) (p q : BT) (v : NInfo) :
    (I.set p v).get q = if q = p then v else I.get q := by
  unfold set get
  by_cases hany : I.any (fun e => decide (e.1 = p)) = true
  · simp only [hany, if_true]
    by_cases hq : q = p
    · subst hq
      rw [find_map_eq I q v hany]
      simp
    · rw [find_map_ne I p q v hq]
      simp [hq]
  · simp only [hany, Bool.false_eq_true, if_false]
    have hnone : ∀ e ∈ I, ¬ e.1 = p := by
      intro e he c
      apply hany
      rw [List.any_eq_true]
      exact ⟨e, he, by simpa using c⟩
    by_cases hq : q = p
    · subst hq
      have : I.find? (fun e => decide (e.1 = q)) = none := by
        rw [List.find?_eq_none]
        intro e he
        simpa using hnone e he
      simp [List.find?_append, this]
    · have hpq : ¬ p = q := fun c => hq c.symm
      simp only [hq, if_false, List.find?_append]
      cases hf : I.find? (fun e => decide (e.1 = q)) with
      | none => simp [List.find?, hpq]
      | some e => simp

end Info
end Cotengra

namespace Cotengra
open Cotengra.Net Cotengra.Legs
namespace Net

/-- a subtree with distinct, in-range leaves -/
structure Valid (n : Net) (s : BT) : Prop where
  nodup : s.leaves.Nodup
  inrange : ∀ i ∈ s.leaves, i < n.inputs.length

theorem Valid.left {n : Net} {l r : BT} (h : n.Valid (.node l r)) : n.Valid l :=
  ⟨(List.nodup_append.1 h.nodup).1, fun i hi => h.inrange i (by simp [BT.leaves, hi])⟩

theorem Valid.right {n : Net} {l r : BT} (h : n.Valid (.node l r)) : n.Valid r :=
  ⟨(List.nodup_append.1 h.nodup).2.1, fun i hi => h.inrange i (by simp [BT.leaves, hi])⟩

theorem leaves_length_pos (t : BT) : 0 < t.leaves.length := by
  cases t with
  | leaf i => simp [BT.leaves]
  | node l r => simp only [BT.leaves, List.length_append]; have := leaves_length_pos l; omega

theorem valid_length_le {n : Net} {s : BT} (h : n.Valid s) : s.leaves.length ≤ n.inputs.length := by
  have hsub : s.leaves ⊆ List.range n.inputs.length := fun i hi => List.mem_range.2 (h.inrange i hi)
  have := (List.subperm_of_subset h.nodup hsub).length_le
  simpa using this

/-- the children of a valid node are never the root -/
theorem child_not_root {n : Net} {l r : BT} (h : n.Valid (.node l r)) :
    n.isRoot l = false ∧ n.isRoot r = false := by
  have hle := valid_length_le h
  simp only [BT.leaves, List.length_append] at hle
  have hl := leaves_length_pos l
  have hr := leaves_length_pos r
  constructor
  · cases l with
    | leaf i => rfl
    | node a b =>
      simp only [isRoot, beq_eq_false_iff_ne, ne_eq]
      intro c; omega
  · cases r with
    | leaf i => rfl
    | node a b =>
      simp only [isRoot, beq_eq_false_iff_ne, ne_eq]
      intro c; omega

theorem legs_equiv_self (n : Net) (rm : List Ix) (s : BT) : Legs.Equiv (n.legs rm s) (n.legs rm s) :=
  Legs.Equiv.refl _ (keys_nodup_legs n rm s) (pos_legs n rm s)

/-! ### updating one field of one entry keeps coherence if the new value is right -/

theorem coherent_set_legs {n : Net} {rm : List Ix} {I : Info} (hc : n.Coherent rm I) (s : BT) (L : Legs)
    (hL : n.LegsOK rm s L) : n.Coherent rm (I.set s { I.get s with legs := some L }) := by
  refine ⟨?_, ?_, ?_, ?_⟩
  · intro q M hq
    rw [Info.get_set] at hq
    by_cases e : q = s
    · subst e; simp only [if_true, Option.some.injEq] at hq; subst hq; exact hL
    · simp only [e, if_false] at hq; exact hc.legs q M hq
  · intro q inv hq
    rw [Info.get_set] at hq
    by_cases e : q = s
    · subst e; simp only [if_true] at hq; exact hc.involved q inv hq
    · simp only [e, if_false] at hq; exact hc.involved q inv hq
  · intro q z hq
    rw [Info.get_set] at hq
    by_cases e : q = s
    · subst e; simp only [if_true] at hq; exact hc.size q z hq
    · simp only [e, if_false] at hq; exact hc.size q z hq
  · intro q f hq
    rw [Info.get_set] at hq
    by_cases e : q = s
    · subst e; simp only [if_true] at hq; exact hc.flops q f hq
    · simp only [e, if_false] at hq; exact hc.flops q f hq

theorem coherent_set_involved {n : Net} {rm : List Ix} {I : Info} (hc : n.Coherent rm I) (l r : BT)
    (inv : Legs) (hi : Legs.Equiv inv (n.involved rm (.node l r))) :
    n.Coherent rm (I.set (.node l r) { I.get (.node l r) with involved := some inv }) := by
  refine ⟨?_, ?_, ?_, ?_⟩
  · intro q M hq
    rw [Info.get_set] at hq
    by_cases e : q = .node l r
    · subst e; simp only [if_true] at hq; exact hc.legs _ M hq
    · simp only [e, if_false] at hq; exact hc.legs q M hq
  · intro q v hq
    rw [Info.get_set] at hq
    by_cases e : q = .node l r
    · subst e; simp only [if_true, Option.some.injEq] at hq; subst hq; exact ⟨l, r, rfl, hi⟩
    · simp only [e, if_false] at hq; exact hc.involved q v hq
  · intro q z hq
    rw [Info.get_set] at hq
    by_cases e : q = .node l r
    · subst e; simp only [if_true] at hq; exact hc.size _ z hq
    · simp only [e, if_false] at hq; exact hc.size q z hq
  · intro q f hq
    rw [Info.get_set] at hq
    by_cases e : q = .node l r
    · subst e; simp only [if_true] at hq; exact hc.flops _ f hq
    · simp only [e, if_false] at hq; exact hc.flops q f hq

theorem coherent_set_size {n : Net} {rm : List Ix} {I : Info} (hc : n.Coherent rm I) (s : BT) (z : Nat)
    (hz : z = n.sizeOfLegs (if n.isRoot s then n.rootLegs rm else n.legs rm s)) :
    n.Coherent rm (I.set s { I.get s with size := some z }) := by
  refine ⟨?_, ?_, ?_, ?_⟩
  · intro q M hq
    rw [Info.get_set] at hq
    by_cases e : q = s
    · subst e; simp only [if_true] at hq; exact hc.legs _ M hq
    · simp only [e, if_false] at hq; exact hc.legs q M hq
  · intro q v hq
    rw [Info.get_set] at hq
    by_cases e : q = s
    · subst e; simp only [if_true] at hq; exact hc.involved _ v hq
    · simp only [e, if_false] at hq; exact hc.involved q v hq
  · intro q w hq
    rw [Info.get_set] at hq
    by_cases e : q = s
    · subst e; simp only [if_true, Option.some.injEq] at hq; subst hq; exact hz
    · simp only [e, if_false] at hq; exact hc.size q w hq
  · intro q f hq
    rw [Info.get_set] at hq
    by_cases e : q = s
    · subst e; simp only [if_true] at hq; exact hc.flops _ f hq
    · simp only [e, if_false] at hq; exact hc.flops q f hq

theorem coherent_set_flops {n : Net} {rm : List Ix} {I : Info} (hc : n.Coherent rm I) (l r : BT) (f : Nat)
    (hf : f = n.nodeFlops rm (.node l r)) :
    n.Coherent rm (I.set (.node l r) { I.get (.node l r) with flops := some f }) := by
  refine ⟨?_, ?_, ?_, ?_⟩
  · intro q M hq
    rw [Info.get_set] at hq
    by_cases e : q = .node l r
    · subst e; simp only [if_true] at hq; exact hc.legs _ M hq
    · simp only [e, if_false] at hq; exact hc.legs q M hq
  · intro q v hq
    rw [Info.get_set] at hq
    by_cases e : q = .node l r
    · subst e; simp only [if_true] at hq; exact hc.involved _ v hq
    · simp only [e, if_false] at hq; exact hc.involved q v hq
  · intro q w hq
    rw [Info.get_set] at hq
    by_cases e : q = .node l r
    · subst e; simp only [if_true] at hq; exact hc.size _ w hq
    · simp only [e, if_false] at hq; exact hc.size q w hq
  · intro q g hq
    rw [Info.get_set] at hq
    by_cases e : q = .node l r
    · subst e; simp only [if_true, Option.some.injEq] at hq; subst hq; exact ⟨l, r, rfl, hf⟩
    · simp only [e, if_false] at hq; exact hc.flops q g hq

/-! ### the lazy getters -/

/-- **`get_legs` is correct and keeps the cache coherent**, whatever is or is not cached yet -/
theorem getLegs_ok (n : Net) (rm : List Ix) (s : BT) (hv : n.Valid s) (I : Info)
    (hc : n.Coherent rm I) :
    n.Coherent rm (n.getLegs rm I s).1 ∧ n.LegsOK rm s (n.getLegs rm I s).2 := by
  induction s generalizing I with
  | leaf i =>
    unfold getLegs
    split
    · rename_i L hL; exact ⟨hc, hc.legs _ L hL⟩
    · have hL : n.LegsOK rm (.leaf i) (n.leafLegs rm i) := by
        unfold LegsOK isRoot; simp only [Bool.false_eq_true, if_false]
        exact legs_equiv_self n rm (.leaf i)
      exact ⟨coherent_set_legs hc _ _ hL, hL⟩
  | node l r ihl ihr =>
    have hnr := child_not_root hv
    unfold getLegs
    simp only
    split
    · rename_i L hL; exact ⟨hc, hc.legs _ L hL⟩
    · split
      · rename_i hroot
        have hL : n.LegsOK rm (.node l r) (n.rootLegs rm) := by
          unfold LegsOK isRoot; simp only [hroot, if_true]
        exact ⟨coherent_set_legs hc _ _ hL, hL⟩
      · rename_i hroot
        have hroot' : n.isRoot (.node l r) = false := by
          unfold isRoot; simpa using hroot
        split
        · rename_i inv hinv
          obtain ⟨l', r', he, hiv⟩ := hc.involved _ inv hinv
          have hL : n.LegsOK rm (.node l r) (n.keepOpen inv) := by
            unfold LegsOK; simp only [hroot', Bool.false_eq_true, if_false]
            have : n.legs rm (.node l r) = n.keepOpen (n.involved rm (.node l r)) := rfl
            rw [this]
            exact Legs.Equiv.filter _ hiv
          exact ⟨coherent_set_legs hc _ _ hL, hL⟩
        · obtain ⟨hc1, hl1⟩ := ihl hv.left I hc
          obtain ⟨hc2, hr2⟩ := ihr hv.right _ hc1
          unfold LegsOK at hl1 hr2
          simp only [hnr.1, hnr.2, Bool.false_eq_true, if_false] at hl1 hr2
          have hinv : Legs.Equiv (Legs.union (n.getLegs rm I l).2 (n.getLegs rm (n.getLegs rm I l).1 r).2)
              (n.involved rm (.node l r)) := Legs.Equiv.union hl1 hr2
          have hc3 := coherent_set_involved hc2 l r _ hinv
          have hL : n.LegsOK rm (.node l r)
              (n.keepOpen (Legs.union (n.getLegs rm I l).2 (n.getLegs rm (n.getLegs rm I l).1 r).2)) := by
            unfold LegsOK; simp only [hroot', Bool.false_eq_true, if_false]
            have : n.legs rm (.node l r) = n.keepOpen (n.involved rm (.node l r)) := rfl
            rw [this]
            exact Legs.Equiv.filter _ hinv
          exact ⟨coherent_set_legs hc3 _ _ hL, hL⟩

/-- `get_involved` is correct and keeps the cache coherent -/
theorem getInvolved_ok (n : Net) (rm : List Ix) (l r : BT) (hv : n.Valid (.node l r)) (I : Info)
    (hc : n.Coherent rm I) :
    n.Coherent rm (n.getInvolved rm I l r).1 ∧
      Legs.Equiv (n.getInvolved rm I l r).2 (n.involved rm (.node l r)) := by
  have hnr := child_not_root hv
  unfold getInvolved
  simp only
  split
  · rename_i inv hinv
    obtain ⟨l', r', he, hiv⟩ := hc.involved _ inv hinv
    exact ⟨hc, hiv⟩
  · obtain ⟨hc1, hl1⟩ := getLegs_ok n rm l hv.left I hc
    obtain ⟨hc2, hr2⟩ := getLegs_ok n rm r hv.right _ hc1
    unfold LegsOK at hl1 hr2
    simp only [hnr.1, hnr.2, Bool.false_eq_true, if_false] at hl1 hr2
    have hinv := Legs.Equiv.union hl1 hr2
    exact ⟨coherent_set_involved hc2 l r _ hinv, hinv⟩

/-- `get_size` is correct and keeps the cache coherent -/
theorem getSize_ok (n : Net) (rm : List Ix) (s : BT) (hv : n.Valid s) (I : Info)
    (hc : n.Coherent rm I) :
    n.Coherent rm (n.getSize rm I s).1 ∧
      (n.getSize rm I s).2 = n.sizeOfLegs (if n.isRoot s then n.rootLegs rm else n.legs rm s) := by
  unfold getSize
  split
  · rename_i z hz; exact ⟨hc, hc.size _ z hz⟩
  · obtain ⟨hc1, hL⟩ := getLegs_ok n rm s hv I hc
    have hz : n.sizeOfLegs (n.getLegs rm I s).2 =
        n.sizeOfLegs (if n.isRoot s then n.rootLegs rm else n.legs rm s) := by
      unfold LegsOK at hL
      by_cases hr : n.isRoot s = true
      · simp only [hr, if_true] at hL ⊢; rw [hL]
      · simp only [hr, Bool.false_eq_true, if_false] at hL ⊢; exact sizeOfLegs_equiv n hL
    exact ⟨coherent_set_size hc1 s _ hz, hz⟩

/-- `get_flops` is correct and keeps the cache coherent -/
theorem getFlops_ok (n : Net) (rm : List Ix) (l r : BT) (hv : n.Valid (.node l r)) (I : Info)
    (hc : n.Coherent rm I) :
    n.Coherent rm (n.getFlops rm I l r).1 ∧ (n.getFlops rm I l r).2 = n.nodeFlops rm (.node l r) := by
  unfold getFlops
  simp only
  split
  · rename_i f hf
    obtain ⟨l', r', he, hff⟩ := hc.flops _ f hf
    exact ⟨hc, hff⟩
  · obtain ⟨hc1, hi⟩ := getInvolved_ok n rm l r hv I hc
    have hf : n.sizeOfLegs (n.getInvolved rm I l r).2 = n.nodeFlops rm (.node l r) :=
      sizeOfLegs_equiv n hi
    exact ⟨coherent_set_flops hc1 l r _ hf, hf⟩

end Net
end Cotengra

namespace Cotengra
open Cotengra.Net Cotengra.Legs
namespace Net

/-- every field of a fully cached internal node is the from-scratch value -/
structure FullOK (n : Net) (rm : List Ix) (l r : BT) (x : Full) : Prop where
  legs : n.LegsOK rm (.node l r) x.legs
  involved : Legs.Equiv x.involved (n.involved rm (.node l r))
  size : x.size = n.sizeOfLegs (if n.isRoot (.node l r) then n.rootLegs rm else n.legs rm (.node l r))
  flops : x.flops = n.nodeFlops rm (.node l r)

/-- the population step yields right values and a coherent cache -/
theorem fillNode_ok (n : Net) (rm : List Ix) (l r : BT) (hv : n.Valid (.node l r)) (I : Info)
    (hc : n.Coherent rm I) :
    n.Coherent rm (n.fillNode rm I l r).1 ∧ n.FullOK rm l r (n.fillNode rm I l r).2 := by
  unfold fillNode
  obtain ⟨hc1, hf⟩ := getFlops_ok n rm l r hv I hc
  obtain ⟨hc2, hz⟩ := getSize_ok n rm (.node l r) hv _ hc1
  obtain ⟨hc3, hi⟩ := getInvolved_ok n rm l r hv _ hc2
  obtain ⟨hc4, hL⟩ := getLegs_ok n rm (.node l r) hv _ hc3
  exact ⟨hc4, ⟨hL, hi, hz, hf⟩⟩

theorem legs_get_cons (n : Net) (rm : List Ix) (ix : Ix) (t : BT) (hv : n.Valid t) (y : Ix) :
    Legs.get (n.legs (ix :: rm) t) y = if y = ix then 0 else Legs.get (n.legs rm t) y := by
  rw [legs_get_eq_spec n _ t hv.nodup hv.inrange, legs_get_eq_spec n rm t hv.nodup hv.inrange,
    C03.cnt_cons]
  by_cases h : y = ix
  · simp [h]
  · simp [h]

theorem without_equiv_legs_cons (n : Net) (rm : List Ix) (ix : Ix) (t : BT) (hv : n.Valid t) (L : Legs)
    (h : Legs.Equiv L (n.legs rm t)) : Legs.Equiv (L.without ix) (n.legs (ix :: rm) t) := by
  refine ⟨?_, keys_nodup_legs n _ t, pos_filter _ _ h.posL, pos_legs n _ t, ?_⟩
  · unfold Legs.without; exact keys_nodup_filter _ _ h.ndL
  · intro y
    rw [MC.get_without _ _ _ h.ndL, legs_get_cons n rm ix t hv, h.get y]

/-- if the index is not on the legs, removing it changes nothing -/
theorem equiv_legs_cons_of_not_has (n : Net) (rm : List Ix) (ix : Ix) (t : BT) (hv : n.Valid t) (L : Legs)
    (h : Legs.Equiv L (n.legs rm t)) (hn : L.has ix = false) : Legs.Equiv L (n.legs (ix :: rm) t) := by
  refine ⟨h.ndL, keys_nodup_legs n _ t, h.posL, pos_legs n _ t, ?_⟩
  intro y
  rw [legs_get_cons n rm ix t hv, ← h.get y]
  by_cases e : y = ix
  · subst e
    simp only [if_true]
    apply get_eq_zero_of_not_mem
    intro hm
    have := (has_iff_mem_keys L y).2 hm
    rw [hn] at this; cases this
  · simp [e]

theorem involved_node (n : Net) (rm : List Ix) (l r : BT) :
    n.involved rm (.node l r) = Legs.union (n.legs rm l) (n.legs rm r) := rfl

theorem without_union_equiv (n : Net) (rm : List Ix) (ix : Ix) (l r : BT) (hv : n.Valid (.node l r))
    (inv : Legs) (h : Legs.Equiv inv (n.involved rm (.node l r))) :
    Legs.Equiv (inv.without ix) (n.involved (ix :: rm) (.node l r)) := by
  refine ⟨?_, keys_nodup_involved n _ _, pos_filter _ _ h.posL, pos_involved n _ _, ?_⟩
  · unfold Legs.without; exact keys_nodup_filter _ _ h.ndL
  · intro y
    rw [MC.get_without _ _ _ h.ndL, h.get y, involved_get, involved_get,
      legs_get_cons n rm ix l hv.left, legs_get_cons n rm ix r hv.right]
    by_cases e : y = ix <;> simp [e]

theorem equiv_involved_cons_of_not_has (n : Net) (rm : List Ix) (ix : Ix) (l r : BT)
    (hv : n.Valid (.node l r)) (inv : Legs) (h : Legs.Equiv inv (n.involved rm (.node l r)))
    (hn : inv.has ix = false) : Legs.Equiv inv (n.involved (ix :: rm) (.node l r)) := by
  refine ⟨h.ndL, keys_nodup_involved n _ _, h.posL, pos_involved n _ _, ?_⟩
  intro y
  have hz : Legs.get inv ix = 0 := by
    apply get_eq_zero_of_not_mem
    intro hm
    have := (has_iff_mem_keys inv ix).2 hm
    rw [hn] at this; cases this
  rw [involved_get, legs_get_cons n rm ix l hv.left, legs_get_cons n rm ix r hv.right]
  by_cases e : y = ix
  · subst e; simp [hz]
  · simp only [e, if_false]
    rw [h.get y, involved_get]

theorem rootLegs_cons (n : Net) (rm : List Ix) (ix : Ix) :
    n.rootLegs (ix :: rm) = (n.rootLegs rm).without ix := by
  unfold rootLegs Legs.without
  rw [List.filter_map]
  congr 1
  rw [List.filter_filter]
  apply List.filter_congr
  intro x _
  simp only [List.contains_cons, Bool.not_or, bne, Function.comp, Bool.and_comm]

/-- an index on a node's legs is involved in the step that makes the node -/
theorem legs_imp_involved (n : Net) (rm : List Ix) (l r : BT) (hv : n.Valid (.node l r))
    (hout : ∀ ix ∈ n.output, 0 < n.appIn ix) (ix : Ix)
    (h : ix ∈ keys (if n.isRoot (.node l r) then n.rootLegs rm else n.legs rm (.node l r))) :
    ix ∈ keys (n.involved rm (.node l r)) := by
  rw [C03.involved_iff n rm l r hv.nodup hv.inrange]
  have hcl := cnt_le_appIn n rm l hv.left.nodup hv.left.inrange ix
  have hcr := cnt_le_appIn n rm r hv.right.nodup hv.right.inrange ix
  have hsum := cnt_node n rm l r ix
  unfold Surv
  by_cases hroot : n.isRoot (.node l r) = true
  · simp only [hroot, if_true] at h
    rw [TS.keys_rootLegs, List.mem_filter] at h
    have hnrm : ix ∉ rm := by simpa using h.2
    have hpos := hout ix h.1
    have hocc : 0 < occ n.output ix := List.count_pos_iff.2 h.1
    have hlen : (BT.node l r).leaves.length = n.inputs.length := by
      unfold isRoot at hroot; simpa using hroot
    have hc : n.cnt rm (.node l r) ix = n.appIn ix := by
      unfold cnt
      rw [appIn_eq_range, ((TS.perm_range_of_full _ _ hv.nodup hv.inrange hlen).map _).sum_eq]
      congr 1
      apply List.map_congr_left
      intro i _
      exact TS.occ_termRm_of_not_mem n rm i ix hnrm
    unfold app
    omega
  · simp only [hroot, Bool.false_eq_true, if_false] at h
    have hs := (Net.mem_legs_iff_surv n rm (.node l r) hv.nodup hv.inrange ix).1 h
    unfold Surv at hs
    omega

/-- **the loop body of `remove_ind` is correct on a fully and correctly cached node**: the edited
    entry holds the from-scratch values for the enlarged removed set. -/
theorem removeIndFull_ok (n : Net) (rm : List Ix) (ix : Ix) (l r : BT) (hv : n.Valid (.node l r))
    (hout : n.output.Nodup) (houtin : ∀ ix ∈ n.output, 0 < n.appIn ix) (hd : 0 < n.size ix)
    (x : Full) (hx : n.FullOK rm l r x) :
    n.FullOK (ix :: rm) l r (removeIndFull ix (n.size ix) x) := by
  obtain ⟨hL, hI, hS, hF⟩ := hx
  have hinvmem : x.involved.has ix = true ↔ ix ∈ keys (n.involved rm (.node l r)) := by
    rw [has_iff_mem_keys]; exact hI.mem_iff ix
  have hflops := C03.slice_flops n rm ix l r hv.nodup hv.inrange
  have hinvsurv := C03.involved_iff n rm l r hv.nodup hv.inrange ix
  unfold removeIndFull
  by_cases hi : x.involved.has ix = true
  · -- the index is involved: involved and flops are edited
    have hsurv : n.Surv rm l ix ∨ n.Surv rm r ix := hinvsurv.1 (hinvmem.1 hi)
    simp only [hsurv, if_true] at hflops
    have hF' : x.flops / n.size ix = n.nodeFlops (ix :: rm) (.node l r) := by
      rw [hF, ← hflops, Nat.mul_div_cancel _ hd]
    have hI' := without_union_equiv n rm ix l r hv x.involved hI
    simp only [hi, Bool.not_true, Bool.false_eq_true, if_false]
    by_cases hroot : n.isRoot (.node l r) = true
    · -- root: legs are exactly the output minus the removed indices
      unfold LegsOK at hL
      simp only [hroot, if_true] at hL hS
      have hkeys : (keys (n.rootLegs rm)).Nodup := by
        rw [TS.keys_rootLegs]; exact hout.filter _
      have hprod := TS.prod_filter_ne n.size (keys (n.rootLegs rm)) hkeys ix
      by_cases hl : x.legs.has ix = true
      · simp only [hl, if_true]
        refine ⟨?_, hI', ?_, hF'⟩
        · unfold LegsOK; simp only [hroot, if_true]; rw [hL, rootLegs_cons]
        · simp only [hroot, if_true]
          have hm : ix ∈ keys (n.rootLegs rm) := by rw [← hL]; exact (has_iff_mem_keys _ _).1 hl
          simp only [hm, if_true] at hprod
          rw [hS, sizeOfLegs_eq_prod, sizeOfLegs_eq_prod, TS.rootLegs_cons_keys, ← hprod,
            Nat.mul_div_cancel _ hd]
      · have hl' : x.legs.has ix = false := by simpa using hl
        simp only [hl', Bool.false_eq_true, if_false]
        have hm : ¬ ix ∈ keys (n.rootLegs rm) := by
          rw [← hL]; intro c; have := (has_iff_mem_keys _ _).2 c; rw [hl'] at this; cases this
        refine ⟨?_, hI', ?_, hF'⟩
        · unfold LegsOK; simp only [hroot, if_true]
          rw [hL, rootLegs_cons]
          unfold Legs.without
          symm
          apply List.filter_eq_self.2
          intro e he
          have : e.1 ≠ ix := by
            intro c; apply hm; rw [← c]; exact List.mem_map.2 ⟨e, he, rfl⟩
          simpa using this
        · simp only [hroot, if_true]
          simp only [hm, if_false, Nat.mul_one] at hprod
          rw [hS, sizeOfLegs_eq_prod, sizeOfLegs_eq_prod, TS.rootLegs_cons_keys, hprod]
    · have hroot' : n.isRoot (.node l r) = false := by simpa using hroot
      unfold LegsOK at hL
      simp only [hroot', Bool.false_eq_true, if_false] at hL hS
      have hsize := C03.slice_size n rm ix (.node l r) hv.nodup hv.inrange
      have hlegmem := Net.mem_legs_iff_surv n rm (.node l r) hv.nodup hv.inrange ix
      unfold nodeSize at hsize
      by_cases hl : x.legs.has ix = true
      · simp only [hl, if_true]
        have hs : n.Surv rm (.node l r) ix :=
          hlegmem.1 ((hL.mem_iff ix).1 ((has_iff_mem_keys _ _).1 hl))
        simp only [hs, if_true] at hsize
        refine ⟨?_, hI', ?_, hF'⟩
        · unfold LegsOK; simp only [hroot', Bool.false_eq_true, if_false]
          exact without_equiv_legs_cons n rm ix _ hv _ hL
        · simp only [hroot', Bool.false_eq_true, if_false]
          rw [hS, ← hsize, Nat.mul_div_cancel _ hd]
      · have hl' : x.legs.has ix = false := by simpa using hl
        simp only [hl', Bool.false_eq_true, if_false]
        have hs : ¬ n.Surv rm (.node l r) ix := by
          intro c
          have := (has_iff_mem_keys _ _).2 ((hL.mem_iff ix).2 (hlegmem.2 c))
          rw [hl'] at this; cases this
        simp only [hs, if_false, Nat.mul_one] at hsize
        refine ⟨?_, hI', ?_, hF'⟩
        · unfold LegsOK; simp only [hroot', Bool.false_eq_true, if_false]
          exact equiv_legs_cons_of_not_has n rm ix _ hv _ hL hl'
        · simp only [hroot', Bool.false_eq_true, if_false]
          rw [hS, hsize]
  · -- the index is not involved: nothing is edited, and nothing needs to be
    have hi' : x.involved.has ix = false := by simpa using hi
    simp only [hi', Bool.not_false, if_true]
    have hns : ¬ (n.Surv rm l ix ∨ n.Surv rm r ix) := fun c => hi (hinvmem.2 (hinvsurv.2 c))
    simp only [hns, if_false, Nat.mul_one] at hflops
    have hnl : ¬ ix ∈ keys (if n.isRoot (.node l r) then n.rootLegs rm else n.legs rm (.node l r)) :=
      fun c => hi (hinvmem.2 (legs_imp_involved n rm l r hv houtin ix c))
    refine ⟨?_, equiv_involved_cons_of_not_has n rm ix l r hv _ hI hi', ?_, by rw [hF, hflops]⟩
    · unfold LegsOK at hL ⊢
      by_cases hroot : n.isRoot (.node l r) = true
      · simp only [hroot, if_true] at hL hnl ⊢
        rw [hL, rootLegs_cons]
        unfold Legs.without
        symm
        apply List.filter_eq_self.2
        intro e he
        have : e.1 ≠ ix := by
          intro c; apply hnl; rw [← c]; exact List.mem_map.2 ⟨e, he, rfl⟩
        simpa using this
      · have hroot' : n.isRoot (.node l r) = false := by simpa using hroot
        simp only [hroot', Bool.false_eq_true, if_false] at hL hnl ⊢
        apply equiv_legs_cons_of_not_has n rm ix _ hv _ hL
        by_contra c
        have hc' : x.legs.has ix = true := by simpa using c
        exact hnl ((hL.mem_iff ix).1 ((has_iff_mem_keys _ _).1 hc'))
    · by_cases hroot : n.isRoot (.node l r) = true
      · simp only [hroot, if_true] at hS hnl ⊢
        have hkeys : (keys (n.rootLegs rm)).Nodup := by
          rw [TS.keys_rootLegs]; exact hout.filter _
        have hprod := TS.prod_filter_ne n.size (keys (n.rootLegs rm)) hkeys ix
        simp only [hnl, if_false, Nat.mul_one] at hprod
        rw [hS, sizeOfLegs_eq_prod, sizeOfLegs_eq_prod, TS.rootLegs_cons_keys, hprod]
      · have hroot' : n.isRoot (.node l r) = false := by simpa using hroot
        simp only [hroot', Bool.false_eq_true, if_false] at hS hnl ⊢
        have hsize := C03.slice_size n rm ix (.node l r) hv.nodup hv.inrange
        have hlegmem := Net.mem_legs_iff_surv n rm (.node l r) hv.nodup hv.inrange ix
        have hs : ¬ n.Surv rm (.node l r) ix := fun c => hnl (hlegmem.2 c)
        unfold nodeSize at hsize
        simp only [hs, if_false, Nat.mul_one] at hsize
        rw [hS, hsize]

end Net
end Cotengra
