import CotengraVerif.Lemmas.Sched
import Mathlib.Data.List.Basic
import Mathlib.Data.List.Nodup

/-!
  The equations the model emits are accepted by the checker's typing clause:
  any equation obtained by relabelling the operands' axis lists and the wanted output list by
  one labelling that is injective on the operands' indices (`binaryAxes_of_labelling`,
  `unaryAxes_of_labelling`); `get_einsum_eq` and the preprocessing equations are of that form.
-/
namespace Cotengra

theorem zip_map_self (xs : List Nat) (f : Nat → Nat) :
    (xs.map f).zip xs = xs.map fun x => (f x, x) := by
  induction xs with
  | nil => rfl
  | cons x xs ih => simp [ih]

theorem bijective_of_labelling (xs : List Nat) (lab : Nat → Nat)
    (hinj : ∀ x ∈ xs, ∀ y ∈ xs, lab x = lab y → x = y) :
    bijective ((xs.map lab).zip xs) = true := by
  rw [bijective_iff, zip_map_self]
  intro p hp q hq
  obtain ⟨x, hx, rfl⟩ := List.mem_map.1 hp
  obtain ⟨y, hy, rfl⟩ := List.mem_map.1 hq
  simp only
  exact ⟨hinj x hx y hy, fun e => e ▸ rfl⟩

theorem assoc_labelling (xs : List Nat) (lab : Nat → Nat)
    (hinj : ∀ x ∈ xs, ∀ y ∈ xs, lab x = lab y → x = y) (p : Nat) (hp : p ∈ xs) :
    assoc ((xs.map lab).zip xs) (lab p) = p := by
  apply assoc_of_mem
  · have := (bijective_iff _).1 (bijective_of_labelling xs lab hinj)
    intro a ha b hb e
    exact (this a ha b hb).1 e
  · rw [zip_map_self]
    exact List.mem_map.2 ⟨p, hp, rfl⟩

/-- relabelled operands and output are accepted, and the produced axes are the wanted ones -/
theorem binaryAxes_of_labelling (lab : Nat → Nat) (lI rI pI : List Nat)
    (hinj : ∀ x ∈ lI ++ rI, ∀ y ∈ lI ++ rI, lab x = lab y → x = y)
    (hsub : ∀ p ∈ pI, p ∈ lI ++ rI) (hnd : pI.Nodup) :
    binaryAxes (lI.map lab) (rI.map lab) (pI.map lab) lI rI = .ok pI := by
  have hb : bijective ((lI.map lab ++ rI.map lab).zip (lI ++ rI)) = true := by
    rw [← List.map_append]; exact bijective_of_labelling _ lab hinj
  have hsub' : (pI.map lab).all (lI.map lab ++ rI.map lab).contains = true := by
    rw [all_contains_iff, ← List.map_append]
    intro l hl
    obtain ⟨p, hp, rfl⟩ := List.mem_map.1 hl
    exact List.mem_map_of_mem (hsub p hp)
  have hnd' : nodupB (pI.map lab) = true := by
    rw [nodupB_iff]
    exact List.Nodup.map_on (fun x hx y hy e => hinj x (hsub x hx) y (hsub y hy) e) hnd
  simp only [binaryAxes, List.length_map, bne_self_eq_false, Bool.or_self, Bool.false_eq_true,
    if_false, hb, hsub', hnd', Bool.not_true]
  congr 1
  rw [List.map_map, ← List.map_append]
  conv_rhs => rw [← List.map_id pI]
  apply List.map_congr_left
  intro p hp
  exact assoc_labelling (lI ++ rI) lab hinj p (hsub p hp)

theorem unaryAxes_of_labelling (lab : Nat → Nat) (ax pI : List Nat)
    (hinj : ∀ x ∈ ax, ∀ y ∈ ax, lab x = lab y → x = y)
    (hsub : ∀ p ∈ pI, p ∈ ax) (hnd : pI.Nodup) :
    unaryAxes (ax.map lab) (pI.map lab) ax = .ok pI := by
  have hb : bijective ((ax.map lab).zip ax) = true := bijective_of_labelling _ lab hinj
  have hsub' : (pI.map lab).all (ax.map lab).contains = true := by
    rw [all_contains_iff]
    intro l hl
    obtain ⟨p, hp, rfl⟩ := List.mem_map.1 hl
    exact List.mem_map_of_mem (hsub p hp)
  have hnd' : nodupB (pI.map lab) = true := by
    rw [nodupB_iff]
    exact List.Nodup.map_on (fun x hx y hy e => hinj x (hsub x hx) y (hsub y hy) e) hnd
  simp only [unaryAxes, List.length_map, bne_self_eq_false, Bool.false_eq_true,
    if_false, hb, hsub', hnd', Bool.not_true]
  congr 1
  rw [List.map_map]
  conv_rhs => rw [← List.map_id pI]
  apply List.map_congr_left
  intro p hp
  exact assoc_labelling ax lab hinj p (hsub p hp)

/-- `get_einsum_eq` is accepted and produces the parent's index list -/
theorem einsumEq_ok (lI rI pI : List Nat) (hsub : ∀ p ∈ pI, p ∈ lI ++ rI) (hnd : pI.Nodup) :
    binaryAxes (einsumEq lI rI pI).1 (einsumEq lI rI pI).2.1 (einsumEq lI rI pI).2.2 lI rI
      = .ok pI := by
  simp only [einsumEq]
  apply binaryAxes_of_labelling _ lI rI pI _ hsub hnd
  intro x hx y hy e
  have hxu : x ∈ uniq (lI ++ rI) := (mem_uniq _ _).2 hx
  have hyu : y ∈ uniq (lI ++ rI) := (mem_uniq _ _).2 hy
  simp only [List.contains_iff_mem, hxu, hyu, if_true] at e
  exact (List.idxOf_inj hxu).1 e

/-- the preprocessing equation of a leaf is accepted and produces the wanted list -/
theorem preEq_ok (term out : List Nat) (hsub : ∀ p ∈ out, p ∈ term) (hnd : out.Nodup) :
    unaryAxes (preEq term out).1 (preEq term out).2 term = .ok out := by
  simp only [preEq]
  apply unaryAxes_of_labelling _ term out _ hsub hnd
  intro x hx y hy e
  have hxu : x ∈ uniq (out ++ term) := (mem_uniq _ _).2 (List.mem_append_right _ hx)
  exact (List.idxOf_inj hxu).1 e

end Cotengra
