import CotengraVerif.Lemmas.ExtractRun
import CotengraVerif.Lemmas.TdotOK

/-!
  Assembly: for every internal node the recipe `extract_contractions` chooses (einsum, or
  tensordot + perm when `get_can_dot` holds and einsum is not preferred) is accepted and
  produces the node's index list; hence the whole extracted program is `Admissible`.
-/
namespace Cotengra
open Cotengra.Net Cotengra.Legs

theorem canDot_iff (sp sl sr : List Ix) (h : canDot sp sl sr = true) (ix : Ix) :
    ix ∈ sp ↔ ((ix ∈ sl ∧ ix ∉ sr) ∨ (ix ∈ sr ∧ ix ∉ sl)) := by
  simp only [canDot, Bool.and_eq_true, List.all_eq_true, bne_iff_ne, ne_eq, Bool.or_eq_true,
    Bool.not_eq_true', List.contains_iff_mem, List.mem_append] at h
  obtain ⟨h1, h2⟩ := h
  constructor
  · intro hm
    have := h1 ix hm
    by_cases a : ix ∈ sl <;> by_cases b : ix ∈ sr <;> simp_all
  · intro hm
    rcases hm with ⟨a, b⟩ | ⟨a, b⟩
    · have := h2 ix (Or.inl a)
      simp_all
    · have := h2 ix (Or.inr a)
      simp_all

theorem keys_rootLegs (n : Net) (rm : List Ix) : keys (n.rootLegs rm) = n.outRm rm := by
  simp [rootLegs, keys, outRm, List.map_map, Function.comp_def]

theorem legsR_of_lt (n : Net) (rm : List Ix) (c : BT) (h : c.leaves.length < n.inputs.length) :
    n.legsR rm c = n.legs rm c := by
  cases c with
  | leaf i => rfl
  | node a b =>
    simp only [legsR]
    have : ((BT.node a b).leaves.length == n.inputs.length) = false := by
      simp only [beq_eq_false_iff_ne, ne_eq]
      omega
    rw [this]
    rfl

/-- the sets `get_can_dot` compares are the sets of the index lists -/
theorem stepKeys (n : Net) (rm : List Ix) (t : BT) (hc : Complete n t)
    (I : BT → List Ix) (hI : IndsOK n rm t I) (l r : BT) (hs : BT.node l r ∈ t.internal) :
    (∀ ix, ix ∈ keys (n.legsR rm (.node l r)) ↔ ix ∈ I (.node l r)) ∧
    (∀ ix, ix ∈ keys (n.legsR rm l) ↔ ix ∈ I l) ∧
    (∀ ix, ix ∈ keys (n.legsR rm r) ↔ ix ∈ I r) := by
  have hN := complete_length n t hc
  have hsub := C03.internal_leaves_sublist t _ hs
  have hsubl : l.leaves.Sublist t.leaves := (List.sublist_append_left _ _).trans hsub
  have hsubr : r.leaves.Sublist t.leaves := (List.sublist_append_right _ _).trans hsub
  have hlen : (BT.node l r).leaves.length ≤ t.leaves.length := hsub.length_le
  have hll : l.leaves.length < t.leaves.length := by
    simp only [BT.leaves, List.length_append] at hlen
    have := leaves_length_pos r
    omega
  have hlr : r.leaves.length < t.leaves.length := by
    simp only [BT.leaves, List.length_append] at hlen
    have := leaves_length_pos l
    omega
  have pl := child_inds n rm t hc I hI l hsubl hll
    (fun c1 c2 e => internal_child_left t l r hs c1 c2 e)
  have pr := child_inds n rm t hc I hI r hsubr hlr
    (fun c1 c2 e => internal_child_right t l r hs c1 c2 e)
  refine ⟨?_, ?_, ?_⟩
  · by_cases hroot : BT.node l r = t
    · intro ix
      have : ((BT.node l r).leaves.length == n.inputs.length) = true := by
        rw [hroot, hN]; simp
      simp only [legsR, this, if_true, keys_rootLegs]
      rw [hroot, hI.root]
    · have hlt := internal_proper t _ hs hroot
      intro ix
      rw [legsR_of_lt n rm _ (hN ▸ hlt)]
      exact (hI.inner _ hs hroot).mem_iff.symm
  · intro ix
    rw [legsR_of_lt n rm l (hN ▸ hll)]
    exact pl.mem_iff.symm
  · intro ix
    rw [legsR_of_lt n rm r (hN ▸ hlr)]
    exact pr.mem_iff.symm

/-- the tensordot recipe of the model is accepted when `get_can_dot` holds -/
theorem tdot_recipe_ok (n : Net) (rm : List Ix) (s l r : BT) (I : BT → List Ix)
    (F : StepFacts n rm s l r I)
    (hx : ∀ ix, ix ∈ I s ↔ ix ∈ tdOut (I l) (I r)) :
    recipeAxes n rm s.leaves
      (Recipe.tdot (tensordotAxes (I l) (I r)).1 (tensordotAxes (I l) (I r)).2
        (tensordotPerm (I l) (I r) (I s))) (I l) (I r) = .ok (I s) := by
  have hok := tdotAxesOk_model (I l) (I r) F.nodupL
  have hbin := tdot_binaryAxes (I l) (I r) F.nodupL F.nodupR
  have hcc : n.closedCheck rm s.leaves (I l ++ I r) (tdOut (I l) (I r)) = true := by
    rw [closedCheck_iff]
    intro ix hix hno
    exact F.closed ix hix (fun h => hno ((hx ix).1 h))
  have hperm := tdot_perm_ok (I l) (I r) (I s) F.nodupL F.nodupR F.nodup hx
  simp only [recipeAxes, hok, Bool.not_true, Bool.false_eq_true, if_false, hbin, hcc]
  split at hperm
  · rename_i hnone
    rw [hnone, hperm]
  · rename_i pm hsome
    rw [hsome]
    obtain ⟨h0, h1, h2⟩ := hperm
    cases pm with
    | nil => simp only; rw [h0 rfl]
    | cons a as =>
      simp only [h1, Bool.not_true, Bool.false_eq_true, if_false, h2]

/-- every recipe of the model's extraction is accepted and produces the node's index list -/
theorem modelRecipe_ok (n : Net) (rm : List Ix) (t : BT) (hc : Complete n t) (G : Guards n)
    (I : BT → List Ix) (hI : IndsOK n rm t I) (pe : Bool) (l r : BT)
    (hs : BT.node l r ∈ t.internal) :
    recipeAxes n rm (BT.node l r).leaves (modelRecipe n rm I pe l r) (I l) (I r)
      = .ok (I (.node l r)) := by
  have F := stepFacts n rm t hc G I hI l r hs
  unfold modelRecipe
  simp only
  split
  · exact einsum_recipe_ok n rm _ l r I F
  · rename_i hcd
    simp only [Bool.or_eq_true, not_or, Bool.not_eq_true, Bool.not_eq_false',
      Bool.not_eq_true'] at hcd
    have hcan : canDot (keys (n.legsR rm (.node l r))) (keys (n.legsR rm l))
        (keys (n.legsR rm r)) = true := by
      have := hcd.2
      simpa using this
    obtain ⟨k1, k2, k3⟩ := stepKeys n rm t hc I hI l r hs
    apply tdot_recipe_ok n rm _ l r I F
    intro ix
    rw [← k1 ix, canDot_iff _ _ _ hcan ix, mem_tdOut, k2, k3]

/-- **the model's extraction is admissible** (tree-free core and tree match) -/
theorem extractWith_admissible (n : Net) (rm : List Ix) (t : BT) (I : BT → List Ix)
    (order : List BT) (pe : Bool) (hN : 2 ≤ n.inputs.length) (hc : Complete n t) (G : Guards n)
    (hI : IndsOK n rm t I) (ho : ChildrenFirst t order) :
    Admissible n rm t (extractWith n rm I order pe) = true := by
  obtain ⟨hperm, hsched⟩ := ho
  have hNt := complete_length n t hc
  have hord : ∀ s ∈ order, s ∈ t.internal := fun s hs => hperm.mem_iff.1 hs
  -- preprocessing
  obtain ⟨cs1, hpre, hcs1⟩ := checkPre_model n rm (List.range n.inputs.length) [] (n.initAxes rm)
    (by
      apply List.Perm.of_eq
      apply List.map_congr_left
      intro i _
      simp [leafEntry])
    (fun i hi => List.mem_range.1 hi) List.nodup_range (fun _ _ h => by cases h)
  have hcs1' : cs1.Perm ((t.leaves.map BT.leaf).map fun s => (s.leaves, I s)) := by
    refine hcs1.trans ?_
    rw [List.map_map]
    refine (List.Perm.of_eq ?_).trans (hc.symm.map _)
    apply List.map_congr_left
    intro i hi
    have : i ∈ (List.range n.inputs.length).reverse ++ [] := by simpa using hi
    simp only [leafEntry, if_pos this, Function.comp, hI.leaf i, BT.leaves]
  have hnd0 : ((t.leaves.map BT.leaf).flatMap BT.leaves).Nodup := by
    have : (t.leaves.map BT.leaf).flatMap BT.leaves = t.leaves := by
      rw [List.flatMap_map]
      simp [BT.leaves, List.flatMap_singleton']
    rw [this]
    exact complete_nodup n t hc
  -- pairwise steps
  obtain ⟨cs2, hsteps, hcs2⟩ := checkSteps_model n rm I pe hsched
    (fun l r hm => modelRecipe_ok n rm t hc G I hI pe l r (hord _ hm)) cs1 hcs1' hnd0
  have hcs2' : cs2 = [(t.leaves, I t)] := by
    have := hcs2
    simp only [List.map_cons, List.map_nil] at this
    exact List.perm_singleton.1 this
  -- t is a node
  obtain ⟨tl, tr, rfl⟩ : ∃ a b, t = BT.node a b := by
    cases t with
    | leaf i => simp [BT.leaves] at hNt; omega
    | node a b => exact ⟨a, b, rfl⟩
  have hsteps_ne : (order.filterMap (stepOf n rm I pe)).isEmpty = false := by
    have hmem : BT.node tl tr ∈ order := hperm.mem_iff.2 (by simp [BT.internal])
    have : (stepOf n rm I pe (.node tl tr)).isSome := by simp [stepOf_node]
    cases hfm : order.filterMap (stepOf n rm I pe) with
    | nil =>
      have := List.filterMap_eq_nil_iff.1 hfm _ hmem
      simp [stepOf_node] at this
    | cons a as => rfl
  have hsame : sameSet (BT.node tl tr).leaves (List.range n.inputs.length) = true :=
    (sameSet_iff _ _).2 fun x => hc.mem_iff
  -- core
  have hcore : checkCore n rm (extractWith n rm I order pe) = .ok () := by
    simp only [checkCore, extractWith, preOf_eq, hpre, hsteps, hcs2', checkFinal, hsteps_ne,
      Bool.false_eq_true, if_false, hsame, Bool.not_true, hI.root, bne_self_eq_false]
  -- tree match
  have hmatch : matchesTree n (.node tl tr) (extractWith n rm I order pe) = .ok () := by
    have hlen : (order.filterMap (stepOf n rm I pe)).length = (BT.node tl tr).internal.length := by
      rw [← hperm.length_eq]
      have hall : ∀ s ∈ order, (stepOf n rm I pe s).isSome = true := by
        intro s hs
        obtain ⟨a, b, rfl⟩ := C03.internal_is_node _ s (hord s hs)
        simp [stepOf_node]
      clear hsteps hsteps_ne hcore hsched hperm
      induction order with
      | nil => rfl
      | cons s ss ih =>
        have h1 := hall s List.mem_cons_self
        obtain ⟨st, hst⟩ := Option.isSome_iff_exists.1 h1
        simp only [List.filterMap_cons, hst, List.length_cons]
        rw [ih (fun x hx => hord x (List.mem_cons_of_mem _ hx))
          (fun x hx => hall x (List.mem_cons_of_mem _ hx))]
    have hall : ((order.filterMap (stepOf n rm I pe)).all fun s =>
        (BT.node tl tr).internal.any (nodeMatches s)) = true := by
      rw [List.all_eq_true]
      intro st hst
      obtain ⟨s, hs, hso⟩ := List.mem_filterMap.1 hst
      obtain ⟨a, b, rfl⟩ := C03.internal_is_node _ s (hord s hs)
      rw [stepOf_node] at hso
      cases hso
      rw [List.any_eq_true]
      exact ⟨.node a b, hord _ hs, by simp [nodeMatches, sameSet_refl, BT.leaves]⟩
    simp only [matchesTree, extractWith, hsame, hNt, beq_self_eq_true, Bool.and_self,
      Bool.not_true, Bool.false_eq_true, if_false, hlen, bne_self_eq_false, hall, if_true]
  simp only [Admissible, checkProgram, hcore, hmatch]

end Cotengra
