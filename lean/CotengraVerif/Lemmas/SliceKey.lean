import CotengraVerif.Model.Slicing

/-!
  Arithmetic of slice numbering (`get_slice_strides`, `slice_key`): strides are the suffix
  products, and the slice numbers `0 .. nslices-1` enumerate the cartesian product of the
  sliced ranges in lexicographic order (`map_sliceKey_range`).  Core Lean only.
-/
namespace Cotengra.Slicing
open Cotengra

/-- well-formedness of a `sliced_inds` dict as `remove_ind` builds it: a projected entry has
    `size = 1` (core.py:1625) -/
def WF (sl : List SliceInfo) : Prop := ∀ s ∈ sl, s.project ≠ none → s.size = 1

instance (sl : List SliceInfo) : Decidable (WF sl) := by unfold WF; infer_instance

theorem WF.tail {s : SliceInfo} {sl : List SliceInfo} (h : WF (s :: sl)) : WF sl :=
  fun x hx => h x (List.mem_cons_of_mem _ hx)

theorem WF.of_append_right {a b : List SliceInfo} (h : WF (a ++ b)) : WF b :=
  fun x hx => h x (List.mem_append_right _ hx)

theorem WF.of_append_left {a b : List SliceInfo} (h : WF (a ++ b)) : WF a :=
  fun x hx => h x (List.mem_append_left _ hx)

/-- **strides**: `strides[k] = Π_{j>k} size_j` -/
theorem getSliceStrides_cons (s : SliceInfo) (rest : List SliceInfo) :
    getSliceStrides (s :: rest) = prodSizes rest :: getSliceStrides rest := by
  induction rest generalizing s with
  | nil => rfl
  | cons b t ih =>
    rw [getSliceStrides, ih b]
    simp only [prodSizes]
    rw [Nat.mul_comm]

theorem getSliceStrides_length (sl : List SliceInfo) : (getSliceStrides sl).length = sl.length := by
  induction sl with
  | nil => rfl
  | cons s rest ih => rw [getSliceStrides_cons]; simp [ih]

theorem getSliceStrides_getElem (sl : List SliceInfo) (k : Nat) (h : k < sl.length) :
    (getSliceStrides sl)[k]'(by rw [getSliceStrides_length]; exact h) = prodSizes (sl.drop (k + 1)) := by
  induction sl generalizing k with
  | nil => simp at h
  | cons s rest ih =>
    simp only [getSliceStrides_cons]
    cases k with
    | zero => simp
    | succ k =>
      simp only [List.getElem_cons_succ, List.drop_succ_cons]
      exact ih k (by simpa using h)

theorem sliceKey_nil (i : Nat) : sliceKey [] i = [] := rfl

theorem sliceKey_cons_none (s : SliceInfo) (rest : List SliceInfo) (i : Nat) (h : s.project = none) :
    sliceKey (s :: rest) i =
      (s.ind, i / prodSizes rest) :: sliceKey rest (i % prodSizes rest) := by
  unfold sliceKey
  rw [getSliceStrides_cons, sliceKeyAux, h]

theorem sliceKey_cons_some (s : SliceInfo) (rest : List SliceInfo) (i p : Nat)
    (h : s.project = some p) :
    sliceKey (s :: rest) i = (s.ind, p) :: sliceKey rest i := by
  unfold sliceKey
  rw [getSliceStrides_cons, sliceKeyAux, h]

theorem sliceKey_keys (sl : List SliceInfo) (i : Nat) :
    (sliceKey sl i).map (·.1) = sl.map (·.ind) := by
  induction sl generalizing i with
  | nil => rfl
  | cons s rest ih =>
    cases h : s.project with
    | none => rw [sliceKey_cons_none _ _ _ h]; simp [ih]
    | some p => rw [sliceKey_cons_some _ _ _ _ h]; simp [ih]

theorem prodSizes_append (a b : List SliceInfo) : prodSizes (a ++ b) = prodSizes a * prodSizes b := by
  induction a with
  | nil => simp [prodSizes]
  | cons s t ih => simp [prodSizes, ih, Nat.mul_assoc]

/-- every combination of values of the sliced indices, in lexicographic order
    (first index slowest) -/
def allKeys : List SliceInfo → List (List (Ix × Nat))
  | [] => [[]]
  | s :: rest => s.slicedRange.flatMap fun v => (allKeys rest).map ((s.ind, v) :: ·)

theorem flatMap_congr' {α β : Type _} {f g : α → List β} {l : List α}
    (h : ∀ a ∈ l, f a = g a) : l.flatMap f = l.flatMap g := by
  induction l with
  | nil => rfl
  | cons a t ih =>
    rw [List.flatMap_cons, List.flatMap_cons, h a List.mem_cons_self,
      ih (fun b hb => h b (List.mem_cons_of_mem _ hb))]

theorem nodup_map_of_injective {α β : Type _} {f : α → β} {l : List α}
    (hf : ∀ a b, f a = f b → a = b) (h : l.Nodup) : (l.map f).Nodup := by
  unfold List.Nodup at *
  rw [List.pairwise_map]
  exact h.imp (fun hab hf' => hab (hf _ _ hf'))

theorem range_mul (d m : Nat) :
    List.range (d * m) = (List.range d).flatMap fun v => (List.range m).map fun j => v * m + j := by
  induction d with
  | zero => simp
  | succ d ih =>
    rw [List.range_succ, List.flatMap_append, ← ih, Nat.succ_mul, List.range_add]
    simp

/-- **enumeration**: slice numbers in increasing order run through all key combinations in
    lexicographic order -/
theorem map_sliceKey_range (sl : List SliceInfo) (hwf : WF sl) :
    (List.range (prodSizes sl)).map (sliceKey sl) = allKeys sl := by
  induction sl with
  | nil => rfl
  | cons s rest ih =>
    have ih := ih hwf.tail
    cases h : s.project with
    | none =>
      simp only [prodSizes, allKeys, SliceInfo.slicedRange, h]
      rw [range_mul, List.map_flatMap]
      apply flatMap_congr'
      intro v _
      rw [← ih, List.map_map, List.map_map]
      apply List.map_congr_left
      intro j hj
      have hj : j < prodSizes rest := List.mem_range.1 hj
      have hm : 0 < prodSizes rest := by omega
      simp only [Function.comp]
      rw [sliceKey_cons_none _ _ _ h]
      have h1 : (v * prodSizes rest + j) / prodSizes rest = v := by
        rw [Nat.mul_comm, Nat.mul_add_div hm, Nat.div_eq_of_lt hj]; rfl
      have h2 : (v * prodSizes rest + j) % prodSizes rest = j := by
        rw [Nat.mul_comm, Nat.mul_add_mod, Nat.mod_eq_of_lt hj]
      rw [h1, h2]
    | some p =>
      have hs : s.size = 1 := hwf s (List.mem_cons_self) (by simp [h])
      simp only [prodSizes, allKeys, SliceInfo.slicedRange, h, hs, Nat.one_mul,
        List.flatMap_cons, List.flatMap_nil, List.append_nil]
      rw [← ih, List.map_map]
      apply List.map_congr_left
      intro j _
      simp only [Function.comp]
      rw [sliceKey_cons_some _ _ _ _ h]

/-- a key assigns to each sliced index, in dict order, a value of its sliced range -/
def ValidKey : List SliceInfo → List (Ix × Nat) → Prop
  | [], [] => True
  | s :: sl, kv :: k => kv.1 = s.ind ∧ kv.2 ∈ s.slicedRange ∧ ValidKey sl k
  | _, _ => False

instance : (sl : List SliceInfo) → (k : List (Ix × Nat)) → Decidable (ValidKey sl k)
  | [], [] => isTrue trivial
  | [], _ :: _ => isFalse (by simp [ValidKey])
  | _ :: _, [] => isFalse (by simp [ValidKey])
  | s :: sl, kv :: k =>
    have := instDecidableValidKey sl k
    by unfold ValidKey; infer_instance

theorem mem_allKeys (sl : List SliceInfo) (k : List (Ix × Nat)) :
    k ∈ allKeys sl ↔ ValidKey sl k := by
  induction sl generalizing k with
  | nil => cases k <;> simp [allKeys, ValidKey]
  | cons s rest ih =>
    cases k with
    | nil => simp [allKeys, ValidKey]
    | cons kv k =>
      obtain ⟨a, b⟩ := kv
      simp only [allKeys, ValidKey, List.mem_flatMap, List.mem_map, List.cons.injEq,
        Prod.mk.injEq]
      constructor
      · rintro ⟨v, hv, k', hk', ⟨rfl, rfl⟩, rfl⟩
        exact ⟨rfl, hv, (ih _).1 hk'⟩
      · rintro ⟨rfl, hv, hk⟩
        exact ⟨b, hv, k, (ih _).2 hk, ⟨rfl, rfl⟩, rfl⟩

theorem slicedRange_nodup (s : SliceInfo) : s.slicedRange.Nodup := by
  unfold SliceInfo.slicedRange
  cases s.project with
  | none => exact List.nodup_range
  | some p => simp

theorem allKeys_nodup (sl : List SliceInfo) : (allKeys sl).Nodup := by
  induction sl with
  | nil => simp [allKeys]
  | cons s rest ih =>
    simp only [allKeys]
    have hr := slicedRange_nodup s
    generalize s.slicedRange = R at hr
    induction R with
    | nil => simp
    | cons v R ihR =>
      rw [List.flatMap_cons, List.nodup_append]
      have hr' := List.nodup_cons.1 hr
      refine ⟨?_, ihR hr'.2, ?_⟩
      · apply nodup_map_of_injective _ ih
        intro a b hab
        simpa using hab
      · intro x hx y hy hxy
        subst hxy
        obtain ⟨k1, _, rfl⟩ := List.mem_map.1 hx
        obtain ⟨w, hw, hy⟩ := List.mem_flatMap.1 hy
        obtain ⟨k2, _, h2⟩ := List.mem_map.1 hy
        simp only [List.cons.injEq, Prod.mk.injEq] at h2
        exact hr'.1 (h2.1.2 ▸ hw)

/-- the slice number of a key: `Σ value_k * stride_k` over the non-projected entries -/
def sliceNum : List SliceInfo → List (Ix × Nat) → Nat
  | s :: sl, kv :: k => (if s.project = none then kv.2 * prodSizes sl else 0) + sliceNum sl k
  | _, _ => 0

theorem sliceNum_lt (sl : List SliceInfo) (hwf : WF sl) (k : List (Ix × Nat)) (hk : ValidKey sl k) :
    sliceNum sl k < prodSizes sl := by
  induction sl generalizing k with
  | nil => simp [sliceNum, prodSizes]
  | cons s rest ih =>
    cases k with
    | nil => simp [ValidKey] at hk
    | cons kv k =>
      obtain ⟨_, hv, hk'⟩ := hk
      have ih := ih hwf.tail k hk'
      simp only [sliceNum, prodSizes]
      cases h : s.project with
      | none =>
        simp only [SliceInfo.slicedRange, h, List.mem_range] at hv
        simp only [if_true]
        calc kv.2 * prodSizes rest + sliceNum rest k
            < kv.2 * prodSizes rest + prodSizes rest := by omega
          _ = (kv.2 + 1) * prodSizes rest := by rw [Nat.succ_mul]
          _ ≤ s.size * prodSizes rest := Nat.mul_le_mul_right _ hv
      | some p =>
        have hs : s.size = 1 := hwf s List.mem_cons_self (by simp [h])
        simp [hs, ih]

theorem sliceKey_sliceNum (sl : List SliceInfo) (hwf : WF sl) (k : List (Ix × Nat))
    (hk : ValidKey sl k) : sliceKey sl (sliceNum sl k) = k := by
  induction sl generalizing k with
  | nil => cases k <;> simp_all [ValidKey, sliceKey_nil]
  | cons s rest ih =>
    cases k with
    | nil => simp [ValidKey] at hk
    | cons kv k =>
      obtain ⟨h1, hv, hk'⟩ := hk
      have ih := ih hwf.tail k hk'
      have hlt := sliceNum_lt rest hwf.tail k hk'
      obtain ⟨a, b⟩ := kv
      simp only at h1 hv
      subst h1
      cases h : s.project with
      | none =>
        rw [sliceKey_cons_none _ _ _ h]
        simp only [sliceNum, h, if_true]
        have hm : 0 < prodSizes rest := by omega
        have h1 : (b * prodSizes rest + sliceNum rest k) / prodSizes rest = b := by
          rw [Nat.mul_comm, Nat.mul_add_div hm, Nat.div_eq_of_lt hlt]; rfl
        have h2 : (b * prodSizes rest + sliceNum rest k) % prodSizes rest = sliceNum rest k := by
          rw [Nat.mul_comm, Nat.mul_add_mod, Nat.mod_eq_of_lt hlt]
        rw [h1, h2, ih]
      | some p =>
        rw [sliceKey_cons_some _ _ _ _ h]
        simp only [SliceInfo.slicedRange, h, List.mem_singleton] at hv
        simp only [sliceNum, h]
        simp [ih, hv]

theorem sliceKey_valid (sl : List SliceInfo) (hwf : WF sl) (i : Nat) (hi : i < prodSizes sl) :
    ValidKey sl (sliceKey sl i) := by
  rw [← mem_allKeys, ← map_sliceKey_range sl hwf]
  exact List.mem_map.2 ⟨i, List.mem_range.2 hi, rfl⟩

theorem sliceNum_sliceKey (sl : List SliceInfo) (hwf : WF sl) (i : Nat) (hi : i < prodSizes sl) :
    sliceNum sl (sliceKey sl i) = i := by
  induction sl generalizing i with
  | nil => simp [prodSizes] at hi; simp [sliceNum, hi]
  | cons s rest ih =>
    cases h : s.project with
    | none =>
      rw [sliceKey_cons_none _ _ _ h]
      simp only [sliceNum, h, if_true]
      simp only [prodSizes] at hi
      have hm : 0 < prodSizes rest := by
        rcases Nat.eq_zero_or_pos (prodSizes rest) with h0 | h0
        · rw [h0] at hi; simp at hi
        · exact h0
      rw [ih hwf.tail _ (Nat.mod_lt _ hm)]
      rw [Nat.mul_comm]
      exact Nat.div_add_mod i (prodSizes rest)
    | some p =>
      have hs : s.size = 1 := hwf s List.mem_cons_self (by simp [h])
      rw [sliceKey_cons_some _ _ _ _ h]
      simp only [prodSizes, hs, Nat.one_mul] at hi
      simp only [sliceNum, h]
      simp [ih hwf.tail i hi]

/-- `slice_key(i)` of two different slice numbers differ -/
theorem sliceKey_injective (sl : List SliceInfo) (hwf : WF sl) (i j : Nat)
    (hi : i < prodSizes sl) (hj : j < prodSizes sl) (h : sliceKey sl i = sliceKey sl j) : i = j := by
  rw [← sliceNum_sliceKey sl hwf i hi, ← sliceNum_sliceKey sl hwf j hj, h]

/-- numbering over a concatenation: the first block varies slowest -/
theorem sliceKey_append (a b : List SliceInfo) (hwf : WF (a ++ b)) (o j : Nat)
    (ho : o < prodSizes a) (hj : j < prodSizes b) :
    sliceKey (a ++ b) (o * prodSizes b + j) = sliceKey a o ++ sliceKey b j := by
  induction a generalizing o with
  | nil =>
    simp only [prodSizes] at ho
    have : o = 0 := by omega
    subst this
    simp [sliceKey_nil]
  | cons s a ih =>
    have hwf' : WF (a ++ b) := WF.tail hwf
    have hB : 0 < prodSizes b := by omega
    cases h : s.project with
    | none =>
      simp only [prodSizes] at ho
      have hA : 0 < prodSizes a := by
        rcases Nat.eq_zero_or_pos (prodSizes a) with h0 | h0
        · rw [h0] at ho; simp at ho
        · exact h0
      rw [List.cons_append, sliceKey_cons_none _ _ _ h, sliceKey_cons_none _ _ _ h,
        prodSizes_append]
      have hr : o % prodSizes a < prodSizes a := Nat.mod_lt _ hA
      have key : o * prodSizes b + j =
          (prodSizes a * prodSizes b) * (o / prodSizes a) + (o % prodSizes a * prodSizes b + j) := by
        have := Nat.div_add_mod o (prodSizes a)
        calc o * prodSizes b + j
            = (prodSizes a * (o / prodSizes a) + o % prodSizes a) * prodSizes b + j := by rw [this]
          _ = _ := by
            rw [Nat.add_mul, Nat.add_assoc, Nat.mul_right_comm]
      have hlt : o % prodSizes a * prodSizes b + j < prodSizes a * prodSizes b := by
        calc o % prodSizes a * prodSizes b + j
            < o % prodSizes a * prodSizes b + prodSizes b := by omega
          _ = (o % prodSizes a + 1) * prodSizes b := by rw [Nat.succ_mul]
          _ ≤ prodSizes a * prodSizes b := Nat.mul_le_mul_right _ hr
      have hpos : 0 < prodSizes a * prodSizes b := Nat.mul_pos hA hB
      have h1 : (o * prodSizes b + j) / (prodSizes a * prodSizes b) = o / prodSizes a := by
        rw [key, Nat.mul_add_div hpos, Nat.div_eq_of_lt hlt]; rfl
      have h2 : (o * prodSizes b + j) % (prodSizes a * prodSizes b) =
          o % prodSizes a * prodSizes b + j := by
        rw [key, Nat.mul_add_mod, Nat.mod_eq_of_lt hlt]
      rw [h1, h2, ih hwf' _ hr]
      rfl
    | some p =>
      have hs : s.size = 1 := hwf s (by simp) (by simp [h])
      simp only [prodSizes, hs, Nat.one_mul] at ho
      rw [List.cons_append, sliceKey_cons_some _ _ _ _ h, sliceKey_cons_some _ _ _ _ h,
        ih hwf' _ ho]
      rfl

end Cotengra.Slicing
