import CotengraVerif.Lemmas.SliceState

/-!
  `gen_output_chunks`: with the sliced indices sorted outputs-first, consecutive blocks of
  `stepsize` slice numbers share their output key.  Core Lean only.
-/
namespace Cotengra.Slicing
open Cotengra

def outs (sl : List SliceInfo) : List SliceInfo := sl.filter (fun s => !s.inner)
def inners (sl : List SliceInfo) : List SliceInfo := sl.filter (fun s => s.inner)

theorem nchunks_eq (sl : List SliceInfo) : nchunks sl = prodSizes (outs sl) := rfl
theorem stepsize_eq (sl : List SliceInfo) : stepsize sl = prodSizes (inners sl) := rfl

theorem sorted_eq (sl : List SliceInfo) (h : Sorted sl) : sl = outs sl ++ inners sl :=
  sorted_split sl h

/-- `nslices = nchunks * stepsize` -/
theorem prodSizes_eq_nchunks_mul (sl : List SliceInfo) (h : Sorted sl) :
    prodSizes sl = nchunks sl * stepsize sl := by
  conv => lhs; rw [sorted_eq sl h]
  rw [prodSizes_append]; rfl

theorem filter_key_all (k : List (Ix × Nat)) (p : Ix → Bool) (h : ∀ kv ∈ k, p kv.1 = true) :
    k.filter (fun kv => p kv.1) = k := List.filter_eq_self.2 h

theorem filter_key_none (k : List (Ix × Nat)) (p : Ix → Bool) (h : ∀ kv ∈ k, p kv.1 = false) :
    k.filter (fun kv => p kv.1) = [] := by
  apply List.filter_eq_nil_iff.2
  intro kv hkv; simp [h kv hkv]

theorem mem_sliceKey_ind (sl : List SliceInfo) (i : Nat) (kv : Ix × Nat) (h : kv ∈ sliceKey sl i) :
    ∃ s ∈ sl, s.ind = kv.1 := by
  have : kv.1 ∈ (sliceKey sl i).map (·.1) := List.mem_map.2 ⟨kv, h, rfl⟩
  rw [sliceKey_keys] at this
  obtain ⟨s, hs, he⟩ := List.mem_map.1 this
  exact ⟨s, hs, he⟩

/-- the output part of the key of slice `o*stepsize + j` is the key number `o` of the sliced
    output indices alone -/
theorem outputPart_sliceKey (n : Net) (sl : List SliceInfo) (hs : Sorted sl) (hf : Flags n sl)
    (o j : Nat) (ho : o < nchunks sl) (hj : j < stepsize sl) :
    (sliceKey sl (o * stepsize sl + j)).filter (fun kv => n.output.contains kv.1) =
      sliceKey (outs sl) o := by
  have hsplit := sorted_eq sl hs
  have hwf : WF (outs sl ++ inners sl) := by rw [← hsplit]; exact hf.wf
  have hkey : sliceKey sl (o * stepsize sl + j) = sliceKey (outs sl) o ++ sliceKey (inners sl) j := by
    have := sliceKey_append (outs sl) (inners sl) hwf o j ho hj
    rw [← hsplit] at this
    exact this
  rw [hkey, List.filter_append]
  rw [filter_key_all _ (fun ix => n.output.contains ix), filter_key_none _ (fun ix => n.output.contains ix)]
  · simp
  · intro kv hkv
    obtain ⟨s, hs', he⟩ := mem_sliceKey_ind _ _ _ hkv
    have hm := List.mem_filter.1 hs'
    have := (hf s hm.1).1
    rw [← he]
    have hi : s.inner = true := hm.2
    rw [hi] at this
    simpa using this.symm
  · intro kv hkv
    obtain ⟨s, hs', he⟩ := mem_sliceKey_ind _ _ _ hkv
    have hm := List.mem_filter.1 hs'
    have := (hf s hm.1).1
    rw [← he]
    have hi : s.inner = false := by simpa using hm.2
    rw [hi] at this
    simpa using this.symm

theorem range_succ_eq (s : Nat) : List.range (s + 1) = 0 :: (List.range s).map (· + 1) := by
  rw [List.range_succ_eq_map]

/-- the slice numbers of all chunks, concatenated in chunk order, are `0, 1, …, nslices-1`:
    every slice is summed into exactly one chunk -/
theorem chunkPlan_tiles (output : List Ix) (sl : List SliceInfo) (hs : Sorted sl)
    (hpos : 0 < stepsize sl) :
    ((chunkPlan output sl (prodSizes sl)).map (·.1)).flatten = List.range (prodSizes sl) := by
  unfold chunkPlan
  have hdiv : prodSizes sl / stepsize sl = nchunks sl := by
    rw [prodSizes_eq_nchunks_mul sl hs, Nat.mul_div_cancel _ hpos]
  simp only [hdiv, List.map_map]
  rw [prodSizes_eq_nchunks_mul sl hs, range_mul, List.flatMap_def]
  congr 1
  apply List.map_congr_left
  intro o _
  simp only [Function.comp]
  obtain ⟨s, hs⟩ : ∃ s, stepsize sl = s + 1 := ⟨stepsize sl - 1, by omega⟩
  rw [hs, range_succ_eq]
  simp [List.map_map, Function.comp]

/-- the keys yielded with the chunks are, in order, all combinations of the sliced output
    indices (lexicographic): pairwise distinct, each output block exactly once -/
theorem chunkPlan_keys (n : Net) (sl : List SliceInfo) (hs : Sorted sl) (hf : Flags n sl)
    (hpos : 0 < stepsize sl) :
    (chunkPlan n.output sl (prodSizes sl)).map (·.2) = allKeys (outs sl) := by
  unfold chunkPlan
  have hdiv : prodSizes sl / stepsize sl = nchunks sl := by
    rw [prodSizes_eq_nchunks_mul sl hs, Nat.mul_div_cancel _ hpos]
  have hwfo : WF (outs sl) := fun s h => hf.wf s (List.mem_filter.1 h).1
  simp only [hdiv, List.map_map]
  rw [← map_sliceKey_range (outs sl) hwfo, ← nchunks_eq]
  apply List.map_congr_left
  intro o ho
  simp only [Function.comp]
  have := outputPart_sliceKey n sl hs hf o 0 (List.mem_range.1 ho) hpos
  simpa using this

end Cotengra.Slicing
