import CotengraVerif.Lemmas.HyperLemmas
import Mathlib.Data.List.Perm.Basic
import Mathlib.Data.List.Range

/-!
  The serial and the parallel search loops of `Model/Hyper.lean` are completion logs:
  `serialLoop_spec`, and the invariant `PInv` of the parallel driver state with
  `parPhase2_spec`, `parPhase1_spec`.
-/
namespace Cotengra
namespace Hyper

theorem runLog_scores (st : HState) (log : Log) :
    (runLog st log).scores = st.scores ++ log.map (·.2.score) := by
  induction log generalizing st with
  | nil => simp
  | cons e l ih => simp only [runLog, List.foldl_cons] at ih ⊢; rw [ih]; simp

@[simp] theorem setSub_setSub (st : HState) (a b : Nat) : setSub (setSub st a) b = setSub st b := rfl
@[simp] theorem setSub_self (st : HState) : setSub st st.submitted = st := rfl
@[simp] theorem setSub_submitted (st : HState) (n : Nat) : (setSub st n).submitted = n := rfl
theorem complete_setSub (st : HState) (n : Nat) (s : Setting) (t : Trial) :
    complete (setSub st n) s t = setSub (complete st s t) n := complete_withSub st n s t
theorem runLog_setSub (st : HState) (n : Nat) (log : Log) :
    runLog (setSub st n) log = setSub (runLog st log) n := runLog_withSub st n log

/-! ## serial -/

theorem serialLoop_spec (env : Env) (k : Nat) (stop : StopRule) (st : HState) :
    ∃ log : Log,
      serialLoop env k stop st = { runLog st log with submitted := st.submitted + log.length } ∧
      log.length ≤ k ∧
      (∀ i (h : i < log.length), log[i].2 = env.trialFn (st.submitted + i) log[i].1) ∧
      (stop = .never → log.length = k) := by
  induction k generalizing stop st with
  | zero => exact ⟨[], rfl, Nat.le_refl _, fun i h => absurd h (by simp), fun _ => rfl⟩
  | succ k ih =>
    generalize hs : env.getSetting st = s
    generalize ht : env.trialFn st.submitted s = t
    have hunf : serialLoop env (k + 1) stop st =
        if (stop.next (setSub (complete st s t) (st.submitted + 1))).1 then
          setSub (complete st s t) (st.submitted + 1)
        else serialLoop env k (stop.next (setSub (complete st s t) (st.submitted + 1))).2
          (setSub (complete st s t) (st.submitted + 1)) := by
      simp only [serialLoop, hs, ht, complete_setSub]
    rw [hunf]
    cases hb : (stop.next (setSub (complete st s t) (st.submitted + 1))).1 with
    | true =>
      refine ⟨[(s, t)], ?_, by simp, ?_, ?_⟩
      · simp only [if_true]; rfl
      · intro i h
        have : i = 0 := by simpa using h
        subst this; simp [ht]
      · intro hn; subst hn; simp [StopRule.next] at hb
    | false =>
      obtain ⟨log', heq, hlen, hres, hnever⟩ :=
        ih (stop.next (setSub (complete st s t) (st.submitted + 1))).2
          (setSub (complete st s t) (st.submitted + 1))
      refine ⟨(s, t) :: log', ?_, by simp; omega, ?_, ?_⟩
      · simp only [Bool.false_eq_true, if_false]
        rw [heq]
        change setSub (runLog (setSub (complete st s t) (st.submitted + 1)) log') _ = setSub _ _
        rw [runLog_setSub]
        simp only [setSub_setSub, setSub_submitted, List.length_cons]
        have : st.submitted + 1 + log'.length = st.submitted + (log'.length + 1) := by omega
        rw [this]; rfl
      · intro i h
        cases i with
        | zero => simp [ht]
        | succ i =>
          have h' : i < log'.length := by simpa using h
          have := hres i h'
          simp only [setSub_submitted] at this
          simp only [List.getElem_cons_succ]
          rw [this]
          congr 1; omega
      · intro hn
        subst hn
        have := hnever (by simp [StopRule.next])
        simp [this]

/-! ## picking a pending future -/

theorem pickAt_some {α : Type} (l : List α) (c : Nat) (h : l ≠ []) :
    ∃ x rest, pickAt l c = some (x, rest) := by
  cases l with
  | nil => exact absurd rfl h
  | cons a l =>
    have hi : c % (l.length + 1) < (a :: l).length := by
      simp only [List.length_cons]; exact Nat.mod_lt _ (by omega)
    unfold pickAt
    simp only [List.getElem?_eq_getElem hi]
    exact ⟨_, _, rfl⟩

theorem pickAt_perm {α : Type} (l : List α) (c : Nat) (x : α) (rest : List α)
    (h : pickAt l c = some (x, rest)) : l.Perm (x :: rest) := by
  cases l with
  | nil => simp [pickAt] at h
  | cons a l =>
    have hi : c % (l.length + 1) < (a :: l).length := by
      simp only [List.length_cons]; exact Nat.mod_lt _ (by omega)
    unfold pickAt at h
    simp only [List.getElem?_eq_getElem hi, Option.some.injEq, Prod.mk.injEq] at h
    obtain ⟨hx, hr⟩ := h
    subst hx hr
    generalize c % (l.length + 1) = i at hi
    generalize a :: l = L at hi
    have h1 : L = L.take i ++ L[i] :: L.drop (i + 1) := by
      rw [← List.drop_eq_getElem_cons hi, List.take_append_drop]
    rw [List.eraseIdx_eq_take_drop_succ]
    conv_lhs => rw [h1]
    exact List.perm_middle

theorem pickAt_length {α : Type} (l : List α) (c : Nat) (x : α) (rest : List α)
    (h : pickAt l c = some (x, rest)) : rest.length + 1 = l.length := by
  have := (pickAt_perm l c x rest h).length_eq
  simp at this; omega

/-! ## the invariant of the parallel driver state -/

structure PInv (env : Env) (st0 : HState) (ps : PState) (plog : List (Nat × Setting × Trial)) :
    Prop where
  hstate : ps.h = { runLog st0 (plog.map (·.2)) with submitted := ps.h.submitted }
  sub_ge : st0.submitted ≤ ps.h.submitted
  conserve : (plog.map (·.1) ++ ps.futures.map (·.2) ++ ps.cancelled).Perm
    (List.range' st0.submitted (ps.h.submitted - st0.submitted))
  results : ∀ e ∈ plog, e.2.2 = env.trialFn e.1 e.2.1

theorem pinv_init (env : Env) (st : HState) : PInv env st { h := st } [] :=
  ⟨rfl, Nat.le_refl _, by simp, by intro e he; cases he⟩

theorem pinv_submit {env : Env} {st0 : HState} {ps : PState} {plog} (h : PInv env st0 ps plog)
    (s : Setting) :
    PInv env st0 (submit ps s) plog := by
  refine ⟨?_, ?_, ?_, h.results⟩
  · have := h.hstate
    change setSub ps.h (ps.h.submitted + 1) = setSub _ (ps.h.submitted + 1)
    change ps.h = setSub _ _ at this
    rw [this]; rfl
  · have := h.sub_ge
    change st0.submitted ≤ ps.h.submitted + 1
    omega
  · have hc := h.conserve
    have hge := h.sub_ge
    change (plog.map (·.1) ++ (ps.futures ++ [(s, ps.h.submitted)]).map (·.2) ++ ps.cancelled).Perm
      (List.range' st0.submitted (ps.h.submitted + 1 - st0.submitted))
    have e1 : ps.h.submitted + 1 - st0.submitted = (ps.h.submitted - st0.submitted) + 1 := by omega
    rw [e1, List.range'_1_concat]
    have e2 : st0.submitted + (ps.h.submitted - st0.submitted) = ps.h.submitted := by omega
    rw [e2]
    rw [List.perm_iff_count] at hc ⊢
    intro a
    have := hc a
    simp only [List.count_append, List.map_append, List.map_cons, List.map_nil] at this ⊢
    omega

theorem pinv_completeP {env : Env} {st0 : HState} {ps : PState} {plog} (h : PInv env st0 ps plog)
    (c : Nat) (hne : ps.futures ≠ []) :
    ∃ plog', PInv env st0 (completeP env ps c) plog' ∧
      (completeP env ps c).futures.length + 1 = ps.futures.length ∧
      (completeP env ps c).h.submitted = ps.h.submitted ∧
      (completeP env ps c).cancelled = ps.cancelled := by
  obtain ⟨⟨s, k⟩, rest, hp⟩ := pickAt_some ps.futures c hne
  have hperm := pickAt_perm _ _ _ _ hp
  have hlen := pickAt_length _ _ _ _ hp
  have hcp : completeP env ps c =
      { ps with h := complete ps.h s (env.trialFn k s), futures := rest } := by
    unfold completeP; rw [hp]
  rw [hcp]
  refine ⟨plog ++ [(k, s, env.trialFn k s)], ⟨?_, ?_, ?_, ?_⟩, hlen, by simp, rfl⟩
  · have := h.hstate
    change ps.h = setSub _ _ at this
    change complete ps.h s (env.trialFn k s) = setSub _ _
    rw [List.map_append, List.map_cons, List.map_nil, runLog_snoc]
    conv_lhs => rw [this]
    rw [complete_setSub]
    simp
  · simpa using h.sub_ge
  · have hc := h.conserve
    simp only [complete_submitted]
    rw [List.perm_iff_count] at hc ⊢
    intro a
    have h1 := hc a
    have h2 := (List.perm_iff_count.1 (hperm.map (·.2))) a
    simp only [List.count_append, List.map_append, List.map_cons, List.map_nil,
      List.count_cons, List.count_nil] at h1 h2 ⊢
    omega
  · intro e he
    rcases List.mem_append.1 he with he | he
    · exact h.results e he
    · simp only [List.mem_singleton] at he; subst he; rfl

theorem pinv_cancel {env : Env} {st0 : HState} {ps : PState} {plog} (h : PInv env st0 ps plog) :
    PInv env st0 (cancel ps) plog := by
  refine ⟨h.hstate, h.sub_ge, ?_, h.results⟩
  have hc := h.conserve
  change (plog.map (·.1) ++ ([] : List (Setting × Nat)).map (·.2) ++
      (ps.cancelled ++ ps.futures.reverse.map (·.2))).Perm
      (List.range' st0.submitted (ps.h.submitted - st0.submitted))
  rw [List.perm_iff_count] at hc ⊢
  intro a
  have h1 := hc a
  simp only [List.count_append, List.map_nil, List.count_nil, List.map_reverse,
    List.count_reverse] at h1 ⊢
  omega

@[simp] theorem cancel_futures (ps : PState) : (cancel ps).futures = [] := rfl
@[simp] theorem cancel_h (ps : PState) : (cancel ps).h = ps.h := rfl
theorem cancel_cancelled_of_empty (ps : PState) (h : ps.futures = []) :
    (cancel ps).cancelled = ps.cancelled := by
  unfold cancel; simp [h]

theorem parPhase2_spec (env : Env) (st0 : HState) (fuel : Nat) (stop : StopRule) (cs : List Nat)
    (ps : PState) (plog : List (Nat × Setting × Trial)) (h : PInv env st0 ps plog) :
    ∃ plog', PInv env st0 (parPhase2 env fuel stop cs ps) plog' ∧
      (parPhase2 env fuel stop cs ps).futures = [] ∧
      (parPhase2 env fuel stop cs ps).h.submitted = ps.h.submitted ∧
      (stop = .never → ps.futures.length ≤ fuel → ps.cancelled = [] →
        (parPhase2 env fuel stop cs ps).cancelled = []) := by
  induction fuel generalizing stop cs ps plog with
  | zero =>
    refine ⟨plog, pinv_cancel h, rfl, rfl, ?_⟩
    intro _ hl hc
    have : ps.futures = [] := List.eq_nil_of_length_eq_zero (by omega)
    change (cancel ps).cancelled = []
    rw [cancel_cancelled_of_empty ps this, hc]
  | succ f ih =>
    unfold parPhase2
    by_cases hemp : ps.futures.isEmpty = true
    · simp only [hemp, if_true]
      refine ⟨plog, pinv_cancel h, rfl, rfl, ?_⟩
      intro _ _ hc
      rw [cancel_cancelled_of_empty ps (List.isEmpty_iff.1 hemp), hc]
    · simp only [hemp, Bool.false_eq_true, if_false]
      have hne : ps.futures ≠ [] := by
        intro e; apply hemp; simp [e]
      obtain ⟨plog1, hinv1, hlen1, hsub1, hcan1⟩ := pinv_completeP h (cs.headD 0) hne
      cases hb : (stop.next (completeP env ps (cs.headD 0)).h).1 with
      | true =>
        simp only [if_true]
        refine ⟨plog1, pinv_cancel hinv1, rfl, by simpa using hsub1, ?_⟩
        intro hn; subst hn; simp [StopRule.next] at hb
      | false =>
        simp only [Bool.false_eq_true, if_false]
        obtain ⟨plog2, hinv2, hfut2, hsub2, hnever2⟩ :=
          ih (stop.next (completeP env ps (cs.headD 0)).h).2 cs.tail _ plog1 hinv1
        refine ⟨plog2, hinv2, hfut2, by rw [hsub2, hsub1], ?_⟩
        intro hn hl hc
        apply hnever2
        · subst hn; simp [StopRule.next]
        · omega
        · rw [hcan1, hc]

theorem parPhase1_spec (env : Env) (pre k : Nat) (stop : StopRule) (cs : List Nat)
    (ps : PState) (plog : List (Nat × Setting × Trial)) {st0 : HState}
    (h : PInv env st0 ps plog) :
    ∃ plog', PInv env st0 (parPhase1 env pre k stop cs ps) plog' ∧
      (parPhase1 env pre k stop cs ps).futures = [] ∧
      (parPhase1 env pre k stop cs ps).h.submitted ≤ ps.h.submitted + k ∧
      (stop = .never → ps.cancelled = [] →
        (parPhase1 env pre k stop cs ps).cancelled = [] ∧
        (parPhase1 env pre k stop cs ps).h.submitted = ps.h.submitted + k) := by
  induction k generalizing stop cs ps plog with
  | zero =>
    obtain ⟨plog', hinv, hfut, hsub, hnever⟩ :=
      parPhase2_spec env st0 ps.futures.length stop cs ps plog h
    refine ⟨plog', hinv, hfut, by simp only [parPhase1]; omega, ?_⟩
    intro hn hc
    exact ⟨hnever hn (Nat.le_refl _) hc, hsub⟩
  | succ k ih =>
    have h0 := pinv_submit h (env.getSetting ps.h)
    have hs0 : (submit ps (env.getSetting ps.h)).h.submitted = ps.h.submitted + 1 := rfl
    have hc0 : (submit ps (env.getSetting ps.h)).cancelled = ps.cancelled := rfl
    have hne0 : (submit ps (env.getSetting ps.h)).futures ≠ [] := by simp [submit]
    have hunf : parPhase1 env pre (k + 1) stop cs ps =
        if (submit ps (env.getSetting ps.h)).futures.length ≥ pre then
          if (stop.next (completeP env (submit ps (env.getSetting ps.h)) (cs.headD 0)).h).1 then
            cancel (completeP env (submit ps (env.getSetting ps.h)) (cs.headD 0))
          else parPhase1 env pre k
            (stop.next (completeP env (submit ps (env.getSetting ps.h)) (cs.headD 0)).h).2 cs.tail
            (completeP env (submit ps (env.getSetting ps.h)) (cs.headD 0))
        else parPhase1 env pre k stop cs (submit ps (env.getSetting ps.h)) := by
      simp only [parPhase1]
    rw [hunf]
    generalize submit ps (env.getSetting ps.h) = ps0 at *
    by_cases hpre : ps0.futures.length ≥ pre
    · simp only [hpre, if_true]
      obtain ⟨plog1, hinv1, _, hsub1, hcan1⟩ := pinv_completeP h0 (cs.headD 0) hne0
      cases hb : (stop.next (completeP env ps0 (cs.headD 0)).h).1 with
      | true =>
        simp only [if_true]
        refine ⟨plog1, pinv_cancel hinv1, rfl, ?_, ?_⟩
        · simp only [cancel_h]; omega
        · intro hn; subst hn; simp [StopRule.next] at hb
      | false =>
        simp only [Bool.false_eq_true, if_false]
        obtain ⟨plog2, hinv2, hfut2, hsub2, hnever2⟩ :=
          ih (stop.next (completeP env ps0 (cs.headD 0)).h).2 cs.tail _ plog1 hinv1
        refine ⟨plog2, hinv2, hfut2, by omega, ?_⟩
        intro hn hc
        have := hnever2 (by subst hn; simp [StopRule.next]) (by rw [hcan1, hc0, hc])
        exact ⟨this.1, by rw [this.2, hsub1, hs0]; omega⟩
    · simp only [hpre, if_false]
      obtain ⟨plog2, hinv2, hfut2, hsub2, hnever2⟩ := ih stop cs ps0 plog h0
      refine ⟨plog2, hinv2, hfut2, by omega, ?_⟩
      intro hn hc
      have := hnever2 hn (by rw [hc0, hc])
      exact ⟨this.1, by rw [this.2, hs0]; omega⟩

end Hyper
end Cotengra
