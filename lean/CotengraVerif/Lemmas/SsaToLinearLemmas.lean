import CotengraVerif.Lemmas.CountLemmas
import Mathlib.Data.List.Nodup

/-!
  `ssa_to_linear` (pathfinders/path_basic.py:821-843) keeps validity: the list `ids` of the code is
  the key list of the SSA replay, `bisect_left` finds the position of a live id, the popped
  positions are exactly the named ids (C05).
-/
namespace Cotengra
namespace Path

def keys {α} (d : List (Nat × α)) : List Nat := d.map (·.1)

/-! ## popping by id -/

theorem popId_keys {α} {d d' : List (Nat × α)} {i : Nat} {x : α} (h : popId d i = some (x, d')) :
    i ∈ keys d ∧ keys d' = (keys d).erase i := by
  induction d generalizing d' x with
  | nil => simp [popId] at h
  | cons kv t ih =>
    obtain ⟨k, v⟩ := kv
    unfold popId at h
    by_cases hk : k = i
    · rw [if_pos hk] at h
      cases h
      subst hk
      simp [keys]
    · rw [if_neg hk] at h
      cases hp : popId t i with
      | none => rw [hp] at h; cases h
      | some r =>
        obtain ⟨y, t'⟩ := r
        rw [hp] at h
        cases h
        obtain ⟨h1, h2⟩ := ih hp
        refine ⟨by simp only [keys, List.map_cons, List.mem_cons] at h1 ⊢; exact Or.inr h1, ?_⟩
        simp only [keys, List.map_cons] at h2 ⊢
        rw [List.erase_cons_tail (by simpa using hk), h2]

theorem popIds_keys {α} : ∀ (p : List Nat) {d d' : List (Nat × α)} {xs : List α},
    (keys d).Nodup → popIds d p = some (xs, d') →
    p.Nodup ∧ (∀ i ∈ p, i ∈ keys d) ∧
      keys d' = (keys d).filter (fun k => !p.contains k) ∧ xs.length = p.length := by
  intro p
  induction p with
  | nil =>
    intro d d' xs _ h
    simp only [popIds, Option.some.injEq, Prod.mk.injEq] at h
    obtain ⟨h1, h2⟩ := h
    subst h1 h2
    exact ⟨List.nodup_nil, by simp, by simp, rfl⟩
  | cons i rest ih =>
    intro d d' xs hnd h
    unfold popIds at h
    cases h1 : popId d i with
    | none => rw [h1] at h; cases h
    | some r =>
      obtain ⟨x, d1⟩ := r
      rw [h1] at h
      simp only at h
      cases h2 : popIds d1 rest with
      | none => rw [h2] at h; cases h
      | some r2 =>
        obtain ⟨ys, d2⟩ := r2
        rw [h2] at h
        simp only [Option.some.injEq, Prod.mk.injEq] at h
        obtain ⟨e1, e2⟩ := h
        subst e1 e2
        obtain ⟨hi, hk1⟩ := popId_keys h1
        have hnd1 : (keys d1).Nodup := by rw [hk1]; exact hnd.erase i
        obtain ⟨r1, r2', r3, r4⟩ := ih hnd1 h2
        have hnot : i ∉ rest := by
          intro hin
          have := r2' i hin
          rw [hk1] at this
          exact (List.Nodup.mem_erase_iff hnd).1 this |>.1 rfl
        refine ⟨List.nodup_cons.2 ⟨hnot, r1⟩, ?_, ?_, by simp [r4]⟩
        · intro j hj
          rcases List.mem_cons.1 hj with e | e
          · subst e; exact hi
          · have := r2' j e
            rw [hk1] at this
            exact List.mem_of_mem_erase this
        · rw [r3, hk1, List.Nodup.erase_eq_filter hnd, List.filter_filter]
          apply List.filter_congr
          intro k _
          by_cases hki : k = i
          · subst hki; simp
          · have : (k == i) = false := by simpa using hki
            simp [List.contains_cons, this, hki]

/-! ## positions in an increasing list -/

theorem bisectLeft_append (pre : List Nat) (x : Nat) (t : List Nat)
    (h : (pre ++ x :: t).Pairwise (· < ·)) : bisectLeft (pre ++ x :: t) x = pre.length := by
  unfold bisectLeft
  induction pre with
  | nil => simp [List.takeWhile_cons]
  | cons a pre' ih =>
    have hp := List.pairwise_cons.1 h
    have ha : a < x := hp.1 x (by simp)
    simp only [List.cons_append, List.takeWhile_cons, ha, decide_true, if_true, List.length_cons]
    rw [ih hp.2]

theorem bisectLeft_spec (ids : List Nat) (hs : ids.Pairwise (· < ·)) (e : Nat) (he : e ∈ ids) :
    ∃ pre t, ids = pre ++ e :: t ∧ bisectLeft ids e = pre.length := by
  obtain ⟨pre, t, hd⟩ := List.append_of_mem he
  refine ⟨pre, t, hd, ?_⟩
  subst hd
  exact bisectLeft_append pre e t hs

theorem bisectLeft_lt (ids : List Nat) (hs : ids.Pairwise (· < ·)) (e : Nat) (he : e ∈ ids) :
    bisectLeft ids e < ids.length := by
  obtain ⟨pre, t, hd, hb⟩ := bisectLeft_spec ids hs e he
  rw [hb, hd]
  simp

theorem bisectLeft_inj (ids : List Nat) (hs : ids.Pairwise (· < ·)) (a b : Nat) (ha : a ∈ ids)
    (hb : b ∈ ids) (h : bisectLeft ids a = bisectLeft ids b) : a = b := by
  obtain ⟨p1, t1, hd1, h1⟩ := bisectLeft_spec ids hs a ha
  obtain ⟨p2, t2, hd2, h2⟩ := bisectLeft_spec ids hs b hb
  have hl : p1.length = p2.length := by omega
  have := List.append_inj (hd1.symm.trans hd2) hl
  have := this.2
  simp only [List.cons.injEq] at this
  exact this.1

/-- removing the positions of the named ids removes exactly the named ids -/
theorem splitAt_positions (ids : List Nat) (hs : ids.Pairwise (· < ·)) (p : List Nat)
    (hp : ∀ e ∈ p, e ∈ ids) : ∀ (xs pre : List Nat), ids = pre ++ xs →
      (splitAt (p.map (bisectLeft ids)) xs pre.length).2 = xs.filter (fun e => !p.contains e) := by
  intro xs
  induction xs with
  | nil => intro pre _; rfl
  | cons x t ih =>
    intro pre hd
    have hx : bisectLeft ids x = pre.length := by
      rw [hd]; exact bisectLeft_append pre x t (hd ▸ hs)
    have hcont : (p.map (bisectLeft ids)).contains pre.length = p.contains x := by
      cases hc : p.contains x with
      | true =>
        have hxm : x ∈ p := by simpa using hc
        have : pre.length ∈ p.map (bisectLeft ids) := by
          rw [← hx]; exact List.mem_map_of_mem hxm
        simpa using this
      | false =>
        cases hc2 : (p.map (bisectLeft ids)).contains pre.length with
        | false => rfl
        | true =>
          have hm : pre.length ∈ p.map (bisectLeft ids) := by simpa using hc2
          obtain ⟨e, he, hpe⟩ := List.mem_map.1 hm
          have hxin : x ∈ ids := by rw [hd]; simp
          have := bisectLeft_inj ids hs e x (hp e he) hxin (by rw [hpe, hx])
          subst this
          have : p.contains e = true := by simpa using he
          rw [this] at hc
          cases hc
    have ih' := ih (pre ++ [x]) (by rw [hd]; simp)
    simp only [List.length_append, List.length_cons, List.length_nil, Nat.zero_add] at ih'
    simp only [splitAt, hcont]
    cases hc : p.contains x with
    | true => simp only [if_true, List.filter_cons, hc, Bool.not_true, Bool.false_eq_true, if_false]; exact ih'
    | false =>
      simp only [Bool.false_eq_true, if_false, List.filter_cons, hc, Bool.not_false, if_true]
      rw [ih']

/-! ## `con.sort()` -/

theorem insertSorted_perm (a : Nat) (l : List Nat) : (insertSorted a l).Perm (a :: l) := by
  induction l with
  | nil => exact List.Perm.refl _
  | cons x t ih =>
    unfold insertSorted
    by_cases h : a ≤ x
    · rw [if_pos h]
    · rw [if_neg h]
      exact (List.Perm.cons x ih).trans (List.Perm.swap a x t)

theorem sortNat_perm (l : List Nat) : (sortNat l).Perm l := by
  induction l with
  | nil => exact List.Perm.refl _
  | cons a t ih => exact (insertSorted_perm a (sortNat t)).trans (List.Perm.cons a ih)

theorem insertSorted_sorted (a : Nat) (l : List Nat) (h : l.Pairwise (· ≤ ·)) :
    (insertSorted a l).Pairwise (· ≤ ·) := by
  induction l with
  | nil => simp [insertSorted]
  | cons x t ih =>
    unfold insertSorted
    have hp := List.pairwise_cons.1 h
    by_cases hax : a ≤ x
    · rw [if_pos hax]
      refine List.pairwise_cons.2 ⟨?_, h⟩
      intro b hb
      rcases List.mem_cons.1 hb with e | e
      · subst e; exact hax
      · exact Nat.le_trans hax (hp.1 b e)
    · rw [if_neg hax]
      refine List.pairwise_cons.2 ⟨?_, ih hp.2⟩
      intro b hb
      have := (insertSorted_perm a t).subset hb
      rcases List.mem_cons.1 this with e | e
      · subst e; omega
      · exact hp.1 b e

theorem sortNat_sorted (l : List Nat) : (sortNat l).Pairwise (· ≤ ·) := by
  induction l with
  | nil => exact List.Pairwise.nil
  | cons a t ih => exact insertSorted_sorted a _ ih

theorem sortNat_strict (l : List Nat) (hnd : l.Nodup) : (sortNat l).Pairwise (· < ·) := by
  have h1 := sortNat_sorted l
  have h2 : (sortNat l).Nodup := (sortNat_perm l).nodup_iff.2 hnd
  have h3 : (sortNat l).Pairwise (fun a b => a ≤ b ∧ a ≠ b) := List.Pairwise.and h1 h2
  exact h3.imp (fun h => Nat.lt_of_le_of_ne h.1 h.2)

/-! ## popping positions from the back -/

theorem splitAt_eraseIdx {α} (P : List Nat) : ∀ (xs : List α) (off j : Nat), j < xs.length →
    (∀ q ∈ P, q < off + j) →
    (splitAt P (xs.eraseIdx j) off).2 = (splitAt ((off + j) :: P) xs off).2 := by
  intro xs
  induction xs with
  | nil => intro off j h; simp at h
  | cons x t ih =>
    intro off j hj hq
    cases j with
    | zero =>
      simp only [List.eraseIdx_cons_zero, Nat.add_zero]
      rw [splitAt_none P t off (by simpa using hq)]
      simp only [splitAt, List.contains_cons, beq_self_eq_true, Bool.true_or, if_true]
      rw [splitAt_none (off :: P) t (off + 1) (by
        intro i hi
        rcases List.mem_cons.1 hi with e | e
        · omega
        · have := hq i e; omega)]
    | succ j' =>
      simp only [List.eraseIdx_cons_succ, splitAt]
      have hne : ((off + (j' + 1)) :: P).contains off = P.contains off := by
        simp only [List.contains_cons]
        have : (off == off + (j' + 1)) = false := by simp
        rw [this, Bool.false_or]
      rw [hne]
      have ih' := ih (off + 1) j' (by simpa using hj) (by intro q hq'; have := hq q hq'; omega)
      have e : off + 1 + j' = off + (j' + 1) := by omega
      rw [e] at ih'
      cases P.contains off <;> simp [ih']

theorem popPositionsDesc_eq : ∀ (D ids : List Nat), D.Pairwise (· > ·) →
    (∀ j ∈ D, j < ids.length) → popPositionsDesc ids D = some (splitAt D ids 0).2 := by
  intro D
  induction D with
  | nil =>
    intro ids _ _
    simp only [popPositionsDesc]
    rw [splitAt_none [] ids 0 (by simp)]
  | cons j rest ih =>
    intro ids hp hb
    have hj := hb j List.mem_cons_self
    have hpc := List.pairwise_cons.1 hp
    simp only [popPositionsDesc, hj, if_true]
    rw [ih (ids.eraseIdx j) hpc.2 (by
      intro q hq
      have h1 := hpc.1 q hq
      rw [List.length_eraseIdx_of_lt hj]
      omega)]
    have := splitAt_eraseIdx rest ids 0 j hj (by intro q hq; have := hpc.1 q hq; omega)
    simp only [Nat.zero_add] at this
    rw [this]

/-! ## the loop of `ssa_to_linear` against the SSA replay -/

structure Rel (N : Nat) (s : SSAState Unit) (st : S2L) : Prop where
  ids : st.ids = keys s.nodes
  sorted : (keys s.nodes).Pairwise (· < ·)
  bound : ∀ k ∈ keys s.nodes, k < s.ssa
  ssa : st.ssa = s.ssa
  count : countRun N st.out = some (keys s.nodes).length

theorem s2lStep_rel {N : Nat} {s s' : SSAState Unit} {st : S2L} {p : Step} (hr : Rel N s st)
    (h : stepSSA (fun _ => ()) s p = some s') : ∃ st', s2lStep st p = some st' ∧ Rel N s' st' := by
  unfold stepSSA at h
  split at h
  · cases h
  · rename_i hpe
    cases hpop : popIds s.nodes p with
    | none => rw [hpop] at h; cases h
    | some r =>
      obtain ⟨xs, d⟩ := r
      rw [hpop] at h
      cases h
      have hnd : (keys s.nodes).Nodup := hr.sorted.imp (fun h => Nat.ne_of_lt h)
      obtain ⟨hpn, hpm, hkd, _⟩ := popIds_keys p hnd hpop
      have hpne : p ≠ [] := by
        intro e; rw [e] at hpe; exact hpe rfl
      -- the positions
      let P := p.map (bisectLeft (keys s.nodes))
      have hPnd : P.Nodup := List.Nodup.map_on
        (fun a ha b hb e => bisectLeft_inj _ hr.sorted a b (hpm a ha) (hpm b hb) e) hpn
      have hPb : ∀ j ∈ P, j < (keys s.nodes).length := by
        intro j hj
        obtain ⟨e, he, hje⟩ := List.mem_map.1 hj
        rw [← hje]
        exact bisectLeft_lt _ hr.sorted e (hpm e he)
      have hcperm := sortNat_perm P
      have hcnd : (sortNat P).Nodup := hcperm.nodup_iff.2 hPnd
      have hcb : ∀ j ∈ sortNat P, j < (keys s.nodes).length := fun j hj => hPb j (hcperm.subset hj)
      have hdesc : (sortNat P).reverse.Pairwise (· > ·) := by
        rw [List.pairwise_reverse]
        exact sortNat_strict P hPnd
      have hpopd := popPositionsDesc_eq (sortNat P).reverse (keys s.nodes) hdesc
        (fun j hj => hcb j (List.mem_reverse.1 hj))
      have hcongr : splitAt (sortNat P).reverse (keys s.nodes) 0 = splitAt P (keys s.nodes) 0 := by
        apply splitAt_congr
        intro i _
        have h1 : i ∈ (sortNat P).reverse ↔ i ∈ P := by
          rw [List.mem_reverse]; exact hcperm.mem_iff
        cases c1 : (sortNat P).reverse.contains i <;> cases c2 : P.contains i <;> simp_all
      have hrest := splitAt_positions (keys s.nodes) hr.sorted p hpm (keys s.nodes) [] rfl
      simp only [List.length_nil] at hrest
      rw [hcongr, hrest, ← hkd] at hpopd
      refine ⟨⟨keys d ++ [st.ssa], st.ssa + 1, st.out ++ [sortNat P]⟩, ?_, ?_⟩
      · unfold s2lStep
        simp only [hr.ids]
        show (match popPositionsDesc (keys s.nodes) (sortNat P).reverse with
          | none => none
          | some ids' => some (S2L.mk (ids' ++ [st.ssa]) (st.ssa + 1) (st.out ++ [sortNat P]))) = _
        rw [hpopd]
      · have hkeys' : keys (d ++ [(s.ssa, ())]) = keys d ++ [s.ssa] := by simp [keys]
        have hsub : ∀ k ∈ keys d, k ∈ keys s.nodes := by
          intro k hk; rw [hkd] at hk; exact (List.mem_filter.1 hk).1
        constructor
        · simp only [hkeys', hr.ssa]
        · simp only [hkeys']
          rw [List.pairwise_append]
          refine ⟨?_, List.pairwise_singleton _ _, ?_⟩
          · rw [hkd]; exact hr.sorted.filter _
          · intro a ha b hb
            simp only [List.mem_singleton] at hb
            subst hb
            exact hr.bound a (hsub a ha)
        · intro k hk
          show k < s.ssa + 1
          simp only [hkeys', List.mem_append, List.mem_singleton] at hk
          rcases hk with e | e
          · have := hr.bound k (hsub k e); omega
          · omega
        · simp only [hr.ssa]
        · simp only [hkeys']
          rw [countRun_append, hr.count]
          simp only [Option.bind_some, countRun]
          have hok : stepOK (keys s.nodes).length (sortNat P) = true := by
            rw [stepOK_iff]
            refine ⟨?_, hcnd, hcb⟩
            intro e
            have := hcperm.length_eq
            rw [e] at this
            simp only [List.length_nil, P, List.length_map] at this
            exact hpne (List.length_eq_zero_iff.1 this.symm)
          rw [if_pos hok]
          congr 1
          have hl1 : (sortNat P).length = p.length := by
            rw [hcperm.length_eq]; simp [P]
          have hl2 : (keys d).length = (keys s.nodes).length - p.length := by
            have := splitAt_rest_length (keys s.nodes) P hPnd hPb
            rw [hrest, ← hkd] at this
            rw [this]; simp [P]
          rw [List.length_append, hl1, hl2]
          rfl

theorem s2lRun_rel {N : Nat} (path : Path) : ∀ {s s' : SSAState Unit} {st : S2L}, Rel N s st →
    runSSA (fun _ => ()) s path = some s' → ∃ st', s2lRun st path = some st' ∧ Rel N s' st' := by
  induction path with
  | nil =>
    intro s s' st hr h
    simp only [runSSA, Option.some.injEq] at h
    subst h
    exact ⟨st, rfl, hr⟩
  | cons p rest ih =>
    intro s s' st hr h
    simp only [runSSA] at h
    cases hs : stepSSA (fun _ => ()) s p with
    | none => rw [hs] at h; cases h
    | some s1 =>
      rw [hs] at h
      obtain ⟨st1, h1, hr1⟩ := s2lStep_rel hr hs
      obtain ⟨st', h2, hr'⟩ := ih hr1 h
      exact ⟨st', by simp only [s2lRun, h1, h2], hr'⟩

theorem rel_init (N : Nat) : Rel N (initSSA N fun _ => ()) ⟨List.range N, N, []⟩ := by
  have hk : keys (initSSA N fun _ => ()).nodes = List.range N := by
    simp [keys, initSSA, List.map_map, Function.comp_def]
  constructor
  · exact hk.symm
  · rw [hk]; exact List.pairwise_lt_range
  · rw [hk]; intro k hk'; exact List.mem_range.1 hk'
  · rfl
  · rw [hk]; simp [countRun]

end Path
end Cotengra
