import CotengraVerif.Model.MaxCounter
import CotengraVerif.Lemmas.TreeState

/-! `MaxCounter`: the cached maximum is the true maximum after every sequence of add/discard. -/
namespace Cotengra
namespace MC
open Legs

/-- `o` is the maximum of `l` (`none` iff `l` is empty) -/
def IsMaxOf (o : Option Nat) (l : List Nat) : Prop :=
  match o with
  | none => l = []
  | some M => M ∈ l ∧ ∀ a ∈ l, a ≤ M

theorem keyMax_isMax (l : List Nat) : IsMaxOf (keyMax l) l := by
  induction l with
  | nil => simp [keyMax, IsMaxOf]
  | cons a t ih =>
    unfold keyMax
    cases h : keyMax t with
    | none =>
      rw [h] at ih
      simp only [IsMaxOf] at ih ⊢
      subst ih
      simp
    | some b =>
      rw [h] at ih
      simp only [IsMaxOf] at ih ⊢
      refine ⟨?_, ?_⟩
      · by_cases hab : a ≤ b
        · rw [Nat.max_eq_right hab]; exact List.mem_cons_of_mem _ ih.1
        · rw [Nat.max_eq_left (by omega)]; exact List.mem_cons_self
      · intro x hx
        rcases List.mem_cons.1 hx with e | e
        · subst e; exact Nat.le_max_left _ _
        · exact Nat.le_trans (ih.2 x e) (Nat.le_max_right _ _)

/-- representation invariant -/
structure Inv (m : MC) : Prop where
  nodup : (keys m.c).Nodup
  pos : Pos m.c
  ismax : IsMaxOf m.mx (keys m.c)

theorem inv_empty : Inv MC.empty :=
  ⟨by simp [MC.empty, keys], by intro e he; simp [MC.empty] at he, rfl⟩

theorem mem_keys_add (L : Legs) (x c y) : y ∈ keys (Legs.add L x c) ↔ (y ∈ keys L ∨ y = x) := by
  rw [keys_add]
  split
  · rename_i h
    constructor
    · exact Or.inl
    · rintro (h' | h')
      · exact h'
      · exact h' ▸ h
  · simp

theorem inv_add (m : MC) (x : Nat) (h : Inv m) : Inv (m.add x) := by
  refine ⟨keys_nodup_add _ _ _ h.nodup, pos_add _ _ _ h.pos (by omega), ?_⟩
  unfold MC.add
  simp only
  cases hm : m.mx with
  | none =>
    have := h.ismax
    rw [hm] at this
    simp only [IsMaxOf] at this ⊢
    have hc : m.c = [] := by
      cases hc : m.c with
      | nil => rfl
      | cons a t => rw [hc] at this; simp [keys] at this
    rw [hc]
    simp [Legs.add, keys]
  | some M =>
    have := h.ismax
    rw [hm] at this
    simp only [IsMaxOf] at this ⊢
    refine ⟨?_, ?_⟩
    · rw [mem_keys_add]
      by_cases hMx : M ≤ x
      · right; exact Nat.max_eq_right hMx
      · left; rw [Nat.max_eq_left (by omega)]; exact this.1
    · intro a ha
      rw [mem_keys_add] at ha
      rcases ha with ha | ha
      · exact Nat.le_trans (this.2 a ha) (Nat.le_max_left _ _)
      · subst ha; exact Nat.le_max_right _ _

theorem keys_setCount (L : Legs) (x c) : keys (setCount L x c) = keys L := by
  induction L with
  | nil => rfl
  | cons kv t ih =>
    obtain ⟨k, v⟩ := kv
    unfold setCount
    split
    · simp [keys]
    · simp only [keys, List.map_cons] at ih ⊢
      rw [ih]

theorem get_setCount (L : Legs) (x c y) (hx : x ∈ keys L) :
    Legs.get (setCount L x c) y = if y = x then c else Legs.get L y := by
  induction L with
  | nil => simp [keys] at hx
  | cons kv t ih =>
    obtain ⟨k, v⟩ := kv
    unfold setCount
    by_cases hk : k = x
    · subst hk
      by_cases hy : y = k
      · subst hy; simp [Legs.get]
      · have : ¬ k = y := fun e => hy e.symm
        simp [Legs.get, this, hy]
    · simp only [hk, if_false]
      have hx' : x ∈ keys t := by
        simp only [keys, List.map_cons, List.mem_cons] at hx
        rcases hx with e | e
        · exact absurd e.symm hk
        · exact e
      by_cases hy : y = x
      · subst hy
        simp [Legs.get, hk, ih hx']
      · by_cases hky : k = y
        · simp [Legs.get, hky, hy]
        · simp [Legs.get, hky, hy, ih hx']

theorem pos_setCount (L : Legs) (x c) (h : Pos L) (hc : 0 < c) : Pos (setCount L x c) := by
  induction L with
  | nil => exact h
  | cons kv t ih =>
    obtain ⟨k, v⟩ := kv
    have ht : Pos t := fun e he => h e (List.mem_cons_of_mem _ he)
    unfold setCount
    split
    · intro e he
      rcases List.mem_cons.1 he with e' | e'
      · subst e'; exact hc
      · exact ht e e'
    · intro e he
      rcases List.mem_cons.1 he with e' | e'
      · subst e'; exact h _ List.mem_cons_self
      · exact ih ht e e'

theorem keys_without (L : Legs) (x) : keys (L.without x) = (keys L).filter (· != x) := by
  unfold Legs.without keys
  induction L with
  | nil => rfl
  | cons kv t ih =>
    obtain ⟨k, v⟩ := kv
    by_cases h : k = x
    · simp [List.filter_cons, h, ih]
    · simp [List.filter_cons, h, ih]

theorem inv_discard (m : MC) (x : Nat) (h : Inv m) : Inv (m.discard x) := by
  unfold MC.discard
  simp only
  split
  · refine ⟨?_, pos_filter _ _ h.pos, ?_⟩
    · rw [keys_without]; exact h.nodup.filter _
    · simp only
      split
      · exact keyMax_isMax _
      · rename_i hne
        have hm := h.ismax
        cases hmx : m.mx with
        | none =>
          rw [hmx] at hm
          simp only [IsMaxOf] at hm ⊢
          rw [keys_without, hm]; rfl
        | some M =>
          rw [hmx] at hm hne
          simp only [IsMaxOf] at hm ⊢
          have hMx : M ≠ x := by
            intro e; subst e; simp at hne
          rw [keys_without]
          refine ⟨List.mem_filter.2 ⟨hm.1, by simpa using hMx⟩, ?_⟩
          intro a ha
          exact hm.2 a (List.mem_filter.1 ha).1
  · rename_i hcnt
    have hx : x ∈ keys m.c := by
      apply mem_keys_of_get_pos; omega
    exact ⟨by rw [keys_setCount]; exact h.nodup, pos_setCount _ _ _ h.pos (by omega),
      by rw [keys_setCount]; exact h.ismax⟩

/-! ### the counts: a `MaxCounter` is the multiset of what was added and not discarded -/

theorem get_add_count (m : MC) (x y : Nat) :
    (m.add x).c.get y = m.c.get y + if x = y then 1 else 0 := get_add m.c x 1 y

theorem get_without (L : Legs) (x y) (hnd : (keys L).Nodup) :
    Legs.get (L.without x) y = if y = x then 0 else Legs.get L y := by
  unfold Legs.without
  rw [get_filter _ _ hnd]
  by_cases h : y = x <;> simp [h]

/-- a discard removes one copy if there is one (`Nat` subtraction: nothing to remove from 0) -/
theorem get_discard_count (m : MC) (x y : Nat) (h : Inv m) :
    (m.discard x).c.get y = m.c.get y - (if x = y then 1 else 0) := by
  unfold MC.discard
  simp only
  split
  · rename_i hle
    simp only
    rw [get_without _ _ _ h.nodup]
    by_cases e : x = y
    · subst e; simp; omega
    · have : ¬ y = x := fun c => e c.symm
      simp [e, this]
  · rename_i hcnt
    simp only
    have hx : x ∈ keys m.c := by
      apply mem_keys_of_get_pos; omega
    rw [get_setCount _ _ _ _ hx]
    by_cases e : x = y
    · subst e; simp
    · have : ¬ y = x := fun c => e c.symm
      simp [e, this]

end MC
end Cotengra
