import CotengraVerif.Lemmas.SliceState

/-!
  `gather_slices`: summation into chunks and the recursive stacking with
  `axis = output_pos[ix] - len(loc)`.  Arrays are read through *labelled axes*:
  `denote axes a σ = a[σ(axes₀), σ(axes₁), …]`.  Core Lean only.
-/
namespace Cotengra.Slicing
open Cotengra

/-- the element of `a` (whose axes are labelled `axes`) at the assignment `σ` -/
def denote (axes : List Ix) (a : IArr) (σ : Ix → Nat) : Int := a.get (axes.map σ)

theorem map_insertIdx {α β : Type _} (f : α → β) (l : List α) (k : Nat) (x : α) :
    (l.insertIdx k x).map f = (l.map f).insertIdx k (f x) := by
  induction l generalizing k with
  | nil => cases k <;> simp
  | cons a t ih =>
    cases k with
    | zero => simp
    | succ k => simp [List.insertIdx_succ_cons, ih]

/-- `numpy.stack` in labelled form: the new axis `r` at position `k` selects the operand -/
theorem denote_stack (axes : List Ix) (r : Ix) (k : Nat) (hk : k ≤ axes.length) (arrs : List IArr)
    (σ : Ix → Nat) :
    denote (axes.insertIdx k r) (IArr.stack arrs k) σ = denote axes (arrs.getD (σ r) IArr.zero) σ := by
  have hk' : k ≤ (axes.map σ).length := by simpa using hk
  simp only [denote, IArr.stack, map_insertIdx, List.eraseIdx_insertIdx_self,
    List.getD_eq_getElem?_getD, List.getElem?_insertIdx_self, hk', if_true, Option.getD_some]

/-- axes left when the indices `d` are dropped from `out` -/
def axesOf (out : List Ix) (d : List Ix) : List Ix := out.filter (fun ix => !d.contains ix)

theorem axesOf_nil (out : List Ix) : axesOf out [] = out := by
  unfold axesOf; simp

theorem axesOf_snoc (out d : List Ix) (x : Ix) :
    axesOf out (d ++ [x]) = (axesOf out d).filter (fun ix => ix != x) := by
  unfold axesOf
  rw [List.filter_filter]
  apply List.filter_congr
  intro a _
  simp only [List.contains_eq_mem, List.mem_append, List.mem_singleton]
  by_cases h1 : a = x <;> by_cases h2 : a ∈ d <;> simp [h1, h2]

theorem insertIdx_idxOf_filter (l : List Ix) (hn : l.Nodup) (x : Ix) (hx : x ∈ l) :
    (l.filter (fun ix => ix != x)).insertIdx (l.idxOf x) x = l ∧
      l.idxOf x ≤ (l.filter (fun ix => ix != x)).length := by
  induction l with
  | nil => simp at hx
  | cons a t ih =>
    have hn' := List.nodup_cons.1 hn
    by_cases ha : a = x
    · subst ha
      have : t.filter (fun ix => ix != a) = t := by
        apply List.filter_eq_self.2
        intro y hy
        have : y ≠ a := fun h => hn'.1 (h ▸ hy)
        simpa using this
      simp [this]
    · have hxt : x ∈ t := by
        rcases List.mem_cons.1 hx with h | h
        · exact absurd h.symm ha
        · exact h
      have ih := ih hn'.2 hxt
      have hb : (a != x) = true := by simpa using ha
      have hb2 : (a == x) = false := by simpa using ha
      simp only [List.filter_cons, hb, if_true, List.idxOf_cons, hb2, cond_false,
        List.insertIdx_succ_cons, List.length_cons]
      exact ⟨by rw [ih.1], by omega⟩

theorem fst_outputPosFrom (sl : List SliceInfo) (p : Nat) (out : List Ix) :
    (outputPosFrom sl p out).map (·.1) = out.filter (isSliced sl) := by
  induction out generalizing p with
  | nil => rfl
  | cons x t ih =>
    unfold outputPosFrom
    by_cases h : isSliced sl x = true
    · simp [h, ih]
    · simp [h, ih]

/-- positions recorded in `output_pos`: the entry that follows `D` sits, once the indices of
    `D` are dropped from `out`, at `pos - |D|` (the `- len(loc)` of the stacking recursion) -/
theorem outputPos_split (sl : List SliceInfo) (out : List Ix) (hn : out.Nodup) (p : Nat)
    (D R : List (Ix × Nat)) (ix : Ix) (pos : Nat)
    (h : outputPosFrom sl p out = D ++ (ix, pos) :: R) :
    p + D.length ≤ pos ∧ pos - p - D.length = (axesOf out (D.map (·.1))).idxOf ix ∧ ix ∈ out := by
  induction out generalizing p D with
  | nil => simp [outputPosFrom] at h
  | cons x t ih =>
    have hn' := List.nodup_cons.1 hn
    unfold outputPosFrom at h
    by_cases hs : isSliced sl x = true
    · rw [if_pos hs] at h
      cases D with
      | nil =>
        simp only [List.nil_append, List.cons.injEq, Prod.mk.injEq] at h
        obtain ⟨⟨rfl, rfl⟩, _⟩ := h
        simp [axesOf]
      | cons y D' =>
        simp only [List.cons_append, List.cons.injEq] at h
        obtain ⟨rfl, h⟩ := h
        obtain ⟨h1, h2, h3⟩ := ih hn'.2 (p + 1) D' h
        refine ⟨by simp only [List.length_cons]; omega, ?_, List.mem_cons_of_mem _ h3⟩
        have hax : axesOf (x :: t) (List.map (·.1) ((x, p) :: D')) = axesOf t (D'.map (·.1)) := by
          unfold axesOf
          simp only [List.map_cons, List.filter_cons, List.contains_cons, BEq.rfl, Bool.true_or,
            Bool.not_true, Bool.false_eq_true, if_false]
          apply List.filter_congr
          intro a ha
          have : a ≠ x := fun e => hn'.1 (e ▸ ha)
          simp [this]
        rw [hax, ← h2]
        simp only [List.length_cons]
        omega
    · rw [if_neg hs] at h
      obtain ⟨h1, h2, h3⟩ := ih hn'.2 (p + 1) D h
      refine ⟨by omega, ?_, List.mem_cons_of_mem _ h3⟩
      have hxD : x ∉ D.map (·.1) := by
        intro hx
        have hsub : D.map (·.1) ⊆ (outputPosFrom sl (p + 1) t).map (·.1) := by
          rw [h]; intro a ha; simp only [List.map_append, List.mem_append]; exact Or.inl ha
        have := hsub hx
        rw [fst_outputPosFrom] at this
        exact hn'.1 (List.mem_filter.1 this).1
      have hax : axesOf (x :: t) (D.map (·.1)) = x :: axesOf t (D.map (·.1)) := by
        unfold axesOf
        have : (!(D.map (·.1)).contains x) = true := by
          simp only [List.contains_eq_mem, Bool.not_eq_true', decide_eq_false_iff_not]
          exact hxD
        rw [List.filter_cons, if_pos this]
      have hne : (x == ix) = false := by
        have : x ≠ ix := fun e => hn'.1 (e ▸ h3)
        simpa using this
      rw [hax, List.idxOf_cons, hne, cond_false, ← h2]
      omega

/-! ### chunks -/

def optGet (o : Option IArr) (idx : List Nat) : Int :=
  match o with
  | some a => a.get idx
  | none => 0

theorem chunkGet_chunkAdd (ch : List (List Nat × IArr)) (k key : List Nat) (s : IArr) :
    chunkGet (chunkAdd ch k s) key =
      if k = key then some (match chunkGet ch key with
        | some a => a.add s
        | none => s) else chunkGet ch key := by
  induction ch with
  | nil =>
    by_cases h : k = key
    · subst h; simp [chunkAdd, chunkGet, List.lookup]
    · have : (key == k) = false := by simpa using fun e => h e.symm
      simp [chunkAdd, chunkGet, List.lookup, h, this]
  | cons kv rest ih =>
    obtain ⟨k', a⟩ := kv
    unfold chunkAdd
    by_cases h1 : k' = k
    · subst h1
      simp only [if_true]
      by_cases h2 : k' = key
      · subst h2; simp [chunkGet, List.lookup]
      · have : (key == k') = false := by simpa using fun e => h2 e.symm
        simp [chunkGet, List.lookup, h2, this]
    · simp only [h1, if_false]
      unfold chunkGet at ih ⊢
      by_cases h2 : key = k'
      · subst h2
        have : ¬ k = key := fun e => h1 e.symm
        simp [List.lookup, this]
      · have : (key == k') = false := by simpa using h2
        simp only [List.lookup, this]
        exact ih

theorem optGet_chunkAdd (ch : List (List Nat × IArr)) (k key : List Nat) (s : IArr) (idx : List Nat) :
    optGet (chunkGet (chunkAdd ch k s) key) idx =
      optGet (chunkGet ch key) idx + (if k = key then s.get idx else 0) := by
  rw [chunkGet_chunkAdd]
  by_cases h : k = key
  · simp only [h, if_true]
    cases chunkGet ch key <;> simp [optGet, IArr.add]
  · simp [h]

/-- after the summation loop, `chunks[key]` holds the sum of the slices whose output key is
    `key` (here: slices `i, …, i+m-1` given by `S`) -/
theorem buildChunksFrom_spec (sl : List SliceInfo) (opos : List (Ix × Nat)) (S : Nat → IArr)
    (key : List Nat) (idx : List Nat) (m i : Nat) (ch : List (List Nat × IArr)) :
    optGet (chunkGet (buildChunksFrom sl opos i ((List.range' i m).map S) ch) key) idx =
      optGet (chunkGet ch key) idx +
        ((List.range' i m).map fun j => if chunkKey sl opos j = key then (S j).get idx else 0).sum ∧
    ((chunkGet (buildChunksFrom sl opos i ((List.range' i m).map S) ch) key).isSome = true ↔
      ((chunkGet ch key).isSome = true ∨ ∃ j, i ≤ j ∧ j < i + m ∧ chunkKey sl opos j = key)) := by
  induction m generalizing i ch with
  | zero =>
    simp only [List.range'_zero, List.map_nil, buildChunksFrom, List.sum_nil, Int.add_zero, true_and]
    constructor
    · intro h; exact Or.inl h
    · rintro (h | ⟨j, h1, h2, _⟩)
      · exact h
      · omega
  | succ m ih =>
    rw [List.range'_succ, List.map_cons, buildChunksFrom]
    obtain ⟨ih1, ih2⟩ := ih (i + 1) (chunkAdd ch (chunkKey sl opos i) (S i))
    constructor
    · rw [ih1, optGet_chunkAdd, List.map_cons, List.sum_cons]
      omega
    · rw [ih2, chunkGet_chunkAdd]
      constructor
      · rintro (h | ⟨j, h1, h2, h3⟩)
        · by_cases hk : chunkKey sl opos i = key
          · exact Or.inr ⟨i, Nat.le_refl _, by omega, hk⟩
          · simp only [hk, if_false] at h; exact Or.inl h
        · exact Or.inr ⟨j, by omega, by omega, h3⟩
      · rintro (h | ⟨j, h1, h2, h3⟩)
        · by_cases hk : chunkKey sl opos i = key
          · simp [hk]
          · simp only [hk, if_false]; exact Or.inl h
        · by_cases hj : j = i
          · subst hj; simp [h3]
          · exact Or.inr ⟨j, by omega, by omega, h3⟩

/-! ### the stacking recursion -/

/-- value of a sliced index under `σ`: `σ ix`, or the projected value -/
def val (sl : List SliceInfo) (σ : Ix → Nat) (ix : Ix) : Nat :=
  match infoOf sl ix with
  | some s => (match s.project with
    | none => σ ix
    | some p => p)
  | none => 0

/-- `σ ix` is a valid position on the stacked axis of `ix` (of length `len(sliced_range)`) -/
def InRange (sl : List SliceInfo) (σ : Ix → Nat) (ix : Ix) : Prop := σ ix < (rangeOf sl ix).length

theorem rangeOf_get (sl : List SliceInfo) (σ : Ix → Nat) (ix : Ix) (h : InRange sl σ ix) :
    (rangeOf sl ix)[σ ix]? = some (val sl σ ix) := by
  unfold InRange at h
  unfold rangeOf val at *
  cases hi : infoOf sl ix with
  | none => simp [hi] at h
  | some s =>
    simp only [hi] at h ⊢
    unfold SliceInfo.slicedRange at h ⊢
    cases hp : s.project with
    | none =>
      simp only [hp, List.length_range] at h
      simp [h]
    | some p =>
      simp only [hp, List.length_singleton] at h
      have : σ ix = 0 := by omega
      simp [this]

/-- `vals` picks one value of the sliced range for every entry of `rem` -/
def ValidVals (sl : List SliceInfo) : List (Ix × Nat) → List Nat → Prop
  | [], [] => True
  | p :: rem, v :: vals => v ∈ rangeOf sl p.1 ∧ ValidVals sl rem vals
  | _, _ => False

theorem allSome_map (l : List Nat) (f : Nat → Option IArr) (h : ∀ d ∈ l, (f d).isSome = true) :
    allSome (l.map f) = some (l.map fun d => (f d).getD IArr.zero) := by
  induction l with
  | nil => rfl
  | cons a t ih =>
    have ha := h a List.mem_cons_self
    obtain ⟨x, hx⟩ := Option.isSome_iff_exists.1 ha
    have iht := ih (fun d hd => h d (List.mem_cons_of_mem _ hd))
    simp only [List.map_cons, hx, allSome, iht, Option.map_some, Option.getD_some]

theorem stackRec_spec (sl : List SliceInfo) (out : List Ix) (hn : out.Nodup)
    (ch : List (List Nat × IArr)) (σ : Ix → Nat)
    (rem D : List (Ix × Nat)) (loc : List Nat)
    (hsplit : outputPos sl out = D ++ rem) (hlen : loc.length = D.length)
    (hr : ∀ p ∈ rem, InRange sl σ p.1)
    (hch : ∀ vals, ValidVals sl rem vals → (chunkGet ch (loc ++ vals)).isSome = true) :
    ∃ R, stackRec sl ch rem loc = some R ∧
      denote (axesOf out (D.map (·.1))) R σ =
        optGet (chunkGet ch (loc ++ rem.map fun p => val sl σ p.1))
          ((axesOf out ((outputPos sl out).map (·.1))).map σ) := by
  induction rem generalizing D loc with
  | nil =>
    have h0 := hch [] (by simp [ValidVals])
    obtain ⟨R, hR⟩ := Option.isSome_iff_exists.1 h0
    simp only [List.append_nil] at hR hsplit
    refine ⟨R, by simpa [stackRec] using hR, ?_⟩
    simp only [List.map_nil, List.append_nil, hR, optGet, hsplit, denote]
  | cons p rem ih =>
    obtain ⟨ix, pos⟩ := p
    -- every branch exists
    have hbranch : ∀ d ∈ rangeOf sl ix, ∃ R, stackRec sl ch rem (loc ++ [d]) = some R ∧
        denote (axesOf out ((D ++ [(ix, pos)]).map (·.1))) R σ =
          optGet (chunkGet ch ((loc ++ [d]) ++ rem.map fun p => val sl σ p.1))
            ((axesOf out ((outputPos sl out).map (·.1))).map σ) := by
      intro d hd
      apply ih (D ++ [(ix, pos)]) (loc ++ [d])
      · rw [hsplit]; simp
      · simp [hlen]
      · intro p hp; exact hr p (List.mem_cons_of_mem _ hp)
      · intro vals hv
        rw [List.append_assoc]
        apply hch
        exact ⟨hd, hv⟩
    have hsome : ∀ d ∈ rangeOf sl ix, (stackRec sl ch rem (loc ++ [d])).isSome = true := by
      intro d hd
      obtain ⟨R, hR, _⟩ := hbranch d hd
      simp [hR]
    have hall := allSome_map (rangeOf sl ix) (fun d => stackRec sl ch rem (loc ++ [d])) hsome
    refine ⟨_, by simp only [stackRec]; rw [hall]; rfl, ?_⟩
    -- the axis arithmetic
    have hpos := outputPos_split sl out hn 0 D rem ix pos hsplit
    have hixD : ix ∈ axesOf out (D.map (·.1)) := by
      unfold axesOf
      refine List.mem_filter.2 ⟨hpos.2.2, ?_⟩
      have hnd : ((outputPos sl out).map (·.1)).Nodup := by
        unfold outputPos
        rw [fst_outputPosFrom]
        exact List.Nodup.sublist List.filter_sublist hn
      rw [hsplit, List.map_append, List.map_cons] at hnd
      have := (List.nodup_append.1 hnd).2.2 ix
      simp only [List.contains_eq_mem, Bool.not_eq_true', decide_eq_false_iff_not]
      intro hm
      exact this hm ix List.mem_cons_self rfl
    have hnax : (axesOf out (D.map (·.1))).Nodup := List.Nodup.sublist List.filter_sublist hn
    obtain ⟨hins, hle⟩ := insertIdx_idxOf_filter _ hnax ix hixD
    have hk : pos - loc.length = (axesOf out (D.map (·.1))).idxOf ix := by
      rw [hlen, ← hpos.2.1]; omega
    have hax : axesOf out ((D ++ [(ix, pos)]).map (·.1)) =
        (axesOf out (D.map (·.1))).filter (fun j => j != ix) := by
      rw [List.map_append, List.map_cons, List.map_nil, axesOf_snoc]
    have hir := hr (ix, pos) List.mem_cons_self
    rw [← hins, hk, ← hax]
    rw [denote_stack _ _ _ (by rw [hax]; exact hle)]
    have hget : ((rangeOf sl ix).map fun d => (stackRec sl ch rem (loc ++ [d])).getD IArr.zero).getD
        (σ ix) IArr.zero = (stackRec sl ch rem (loc ++ [val sl σ ix])).getD IArr.zero := by
      rw [List.getD_eq_getElem?_getD, List.getElem?_map, rangeOf_get sl σ ix hir]
      rfl
    rw [hget]
    obtain ⟨R, hR, hden⟩ := hbranch (val sl σ ix) (List.mem_of_getElem? (rangeOf_get sl σ ix hir))
    rw [hR, Option.getD_some, hden]
    simp [List.append_assoc]

/-! ### existence of every chunk, and the top-level statement -/

/-- the key that gives every sliced index `ix` the value `f ix` -/
def keyOfFn (sl : List SliceInfo) (f : Ix → Nat) : List (Ix × Nat) := sl.map fun s => (s.ind, f s.ind)

theorem validKey_keyOfFn (sl : List SliceInfo) (f : Ix → Nat)
    (h : ∀ s ∈ sl, f s.ind ∈ s.slicedRange) : ValidKey sl (keyOfFn sl f) := by
  induction sl with
  | nil => simp [keyOfFn, ValidKey]
  | cons s t ih =>
    exact ⟨rfl, h s List.mem_cons_self, ih (fun x hx => h x (List.mem_cons_of_mem _ hx))⟩

theorem keyGet_keyOfFn (sl : List SliceInfo) (f : Ix → Nat) (ix : Ix) (h : isSliced sl ix = true) :
    keyGet (keyOfFn sl f) ix = some (f ix) := by
  induction sl with
  | nil => simp [isSliced] at h
  | cons s t ih =>
    unfold keyGet keyOfFn at *
    by_cases he : s.ind = ix
    · subst he; simp
    · have hb : (ix == s.ind) = false := by simpa using fun e => he e.symm
      have ht : isSliced t ix = true := by
        simp only [isSliced, List.any_cons, Bool.or_eq_true] at h
        rcases h with h | h
        · exact absurd (by simpa using h) he
        · exact h
      simp only [List.map_cons, List.lookup, hb]
      exact ih ht

theorem infoOf_of_mem (sl : List SliceInfo) (hnd : (sl.map (·.ind)).Nodup) (s : SliceInfo)
    (hs : s ∈ sl) : infoOf sl s.ind = some s := by
  induction sl with
  | nil => simp at hs
  | cons a t ih =>
    simp only [List.map_cons, List.nodup_cons] at hnd
    unfold infoOf
    rcases List.mem_cons.1 hs with rfl | hs'
    · simp
    · have : a.ind ≠ s.ind := fun e => hnd.1 (e ▸ List.mem_map.2 ⟨s, hs', rfl⟩)
      have hb : (a.ind == s.ind) = false := by simpa using this
      rw [List.find?_cons, hb]
      exact ih hnd.2 hs'

theorem lookup_zip (keys : List Ix) (vals : List Nat) (hn : keys.Nodup) (hl : keys.length = vals.length) :
    keys.map (fun ix => (keys.zip vals).lookup ix) = vals.map some := by
  induction keys generalizing vals with
  | nil => cases vals <;> simp_all
  | cons k t ih =>
    cases vals with
    | nil => simp at hl
    | cons v vs =>
      have hn' := List.nodup_cons.1 hn
      simp only [List.zip_cons_cons, List.map_cons, List.lookup, BEq.rfl, List.cons.injEq, true_and]
      rw [← ih vs hn'.2 (by simpa using hl)]
      apply List.map_congr_left
      intro a ha
      have hne : a ≠ k := by
        intro e; rw [e] at ha; exact hn'.1 ha
      have : (a == k) = false := by simpa using hne
      simp [this]

theorem lookup_zip_some (keys : List Ix) (vals : List Nat) (ix : Ix) (v : Nat)
    (h : (keys.zip vals).lookup ix = some v) : ∃ t : Nat, keys[t]? = some ix ∧ vals[t]? = some v := by
  induction keys generalizing vals with
  | nil => simp [List.lookup] at h
  | cons k t ih =>
    cases vals with
    | nil => simp [List.lookup] at h
    | cons w ws =>
      simp only [List.zip_cons_cons, List.lookup] at h
      by_cases he : ix = k
      · subst he
        simp only [BEq.rfl, Option.some.injEq] at h
        exact ⟨0, by simp, by simp [h]⟩
      · have : (ix == k) = false := by simpa using he
        simp only [this] at h
        obtain ⟨t', h1, h2⟩ := ih ws h
        exact ⟨t' + 1, by simpa using h1, by simpa using h2⟩

theorem validVals_length (sl : List SliceInfo) (rem : List (Ix × Nat)) (vals : List Nat)
    (h : ValidVals sl rem vals) : rem.length = vals.length := by
  induction rem generalizing vals with
  | nil => cases vals <;> simp_all [ValidVals]
  | cons p t ih =>
    cases vals with
    | nil => simp [ValidVals] at h
    | cons v vs => simp [ih vs h.2]

theorem validVals_mem (sl : List SliceInfo) (rem : List (Ix × Nat)) (vals : List Nat)
    (h : ValidVals sl rem vals) (t : Nat) (p : Ix × Nat) (v : Nat)
    (hp : rem[t]? = some p) (hv : vals[t]? = some v) : v ∈ rangeOf sl p.1 := by
  induction rem generalizing vals t with
  | nil => simp at hp
  | cons q r ih =>
    cases vals with
    | nil => simp at hv
    | cons w ws =>
      cases t with
      | zero =>
        simp only [List.getElem?_cons_zero, Option.some.injEq] at hp hv
        subst hp; subst hv; exact h.1
      | succ t => exact ih ws h.2 t (by simpa using hp) (by simpa using hv)

theorem exists_slice_of_vals_aux (sl : List SliceInfo) (hwf : WF sl) (hnd : (sl.map (·.ind)).Nodup)
    (hpos : ∀ s ∈ sl, 0 < s.size) (opos : List (Ix × Nat)) (keys : List Ix)
    (hk : keys = opos.map (·.1)) (hkn : keys.Nodup) (hks : ∀ ix ∈ keys, isSliced sl ix = true)
    (vals : List Nat) (hv : ValidVals sl opos vals) :
    ∃ j, j < prodSizes sl ∧ chunkKey sl opos j = vals := by
  have hlen : keys.length = vals.length := by
    have := validVals_length sl _ _ hv
    rw [hk]; simpa using this
  have hlk := lookup_zip keys vals hkn hlen
  let f : Ix → Nat := fun ix =>
    match (keys.zip vals).lookup ix with
    | some v => v
    | none => (rangeOf sl ix).headD 0
  have hf : ∀ ix, f ix = match (keys.zip vals).lookup ix with
    | some v => v
    | none => (rangeOf sl ix).headD 0 := fun _ => rfl
  have hvalid : ValidKey sl (keyOfFn sl f) := by
    apply validKey_keyOfFn
    intro s hs
    have hinfo := infoOf_of_mem sl hnd s hs
    have hrange : rangeOf sl s.ind = s.slicedRange := by simp [rangeOf, hinfo]
    rw [hf]
    cases hl : (keys.zip vals).lookup s.ind with
    | none =>
      simp only [hrange]
      have hne : s.slicedRange ≠ [] := by
        unfold SliceInfo.slicedRange
        cases s.project with
        | none => have := hpos s hs; simp; omega
        | some p => simp
      cases hr : s.slicedRange with
      | nil => exact absurd hr hne
      | cons a t => simp
    | some v =>
      simp only
      obtain ⟨t, h1, h2⟩ := lookup_zip_some keys vals _ _ hl
      rw [hk, List.getElem?_map] at h1
      cases hp : opos[t]? with
      | none => simp [hp] at h1
      | some p =>
        simp only [hp, Option.map_some, Option.some.injEq] at h1
        have := validVals_mem sl _ _ hv t p v hp h2
        rw [h1, hrange] at this
        exact this
  refine ⟨sliceNum sl (keyOfFn sl f), sliceNum_lt sl hwf _ hvalid, ?_⟩
  unfold chunkKey
  rw [sliceKey_sliceNum sl hwf _ hvalid]
  have h1 : opos.map (fun p => keyVal (keyOfFn sl f) p.1) = keys.map f := by
    rw [hk, List.map_map]
    apply List.map_congr_left
    intro p hp
    have hsl : isSliced sl p.1 = true := hks _ (by rw [hk]; exact List.mem_map.2 ⟨p, hp, rfl⟩)
    simp [keyVal, keyGet_keyOfFn sl f p.1 hsl]
  rw [h1]
  apply List.ext_getElem
  · simpa using hlen
  · intro t h1 h2
    have ht : t < keys.length := by simpa using h1
    have h3 : (keys.map fun ix => (keys.zip vals).lookup ix)[t]? = (vals.map some)[t]? := by rw [hlk]
    rw [List.getElem?_map, List.getElem?_map, List.getElem?_eq_getElem ht,
      List.getElem?_eq_getElem h2] at h3
    simp only [Option.map_some, Option.some.injEq] at h3
    rw [List.getElem_map, hf, h3]

/-- every combination of values of the sliced output indices is the output key of some slice -/
theorem exists_slice_of_vals (sl : List SliceInfo) (hwf : WF sl) (hnd : (sl.map (·.ind)).Nodup)
    (hpos : ∀ s ∈ sl, 0 < s.size) (out : List Ix) (hn : out.Nodup) (vals : List Nat)
    (hv : ValidVals sl (outputPos sl out) vals) :
    ∃ j, j < prodSizes sl ∧ chunkKey sl (outputPos sl out) j = vals := by
  have hkeys : (outputPos sl out).map (·.1) = out.filter (isSliced sl) := fst_outputPosFrom sl 0 out
  apply exists_slice_of_vals_aux sl hwf hnd hpos (outputPos sl out) _ rfl _ _ vals hv
  · rw [hkeys]; exact List.Nodup.sublist List.filter_sublist hn
  · intro ix hix
    rw [hkeys] at hix
    exact (List.mem_filter.1 hix).2

theorem get_foldl_add (l : List IArr) (a : IArr) (idx : List Nat) :
    (l.foldl IArr.add a).get idx = a.get idx + (l.map (·.get idx)).sum := by
  induction l generalizing a with
  | nil => simp
  | cons b t ih =>
    rw [List.foldl_cons, ih, List.map_cons, List.sum_cons]
    simp only [IArr.add]
    omega

end Cotengra.Slicing
