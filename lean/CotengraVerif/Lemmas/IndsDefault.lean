import CotengraVerif.Lemmas.ExtractFinal

/-!
  The default index orders (`get_inds`, core.py:860-877) form an admissible table:
  every non-root node's list is an ordering of its legs.
-/
namespace Cotengra
open Cotengra.Net Cotengra.Legs

theorem has_iff_mem_keys (L : Legs) (ix : Ix) : L.has ix = true ↔ ix ∈ keys L := by
  induction L with
  | nil => simp [Legs.has, keys]
  | cons kv t ih =>
    obtain ⟨k, v⟩ := kv
    simp only [Legs.has, Bool.or_eq_true, beq_iff_eq, ih, keys, List.map_cons, List.mem_cons]
    constructor
    · rintro (h | h)
      · exact Or.inl h.symm
      · exact Or.inr h
    · rintro (h | h)
      · exact Or.inl h.symm
      · exact Or.inr h

theorem mem_keys_legs_node (n : Net) (rm : List Ix) (l r : BT) (ix : Ix)
    (h : ix ∈ keys (n.legs rm (.node l r))) :
    ix ∈ keys (n.legs rm l) ∨ ix ∈ keys (n.legs rm r) := by
  rw [← mem_involved_iff]
  simp only [legs, keepOpen, involved] at h ⊢
  unfold keys at h ⊢
  exact (List.Sublist.map _ List.filter_sublist).subset h

/-- `get_inds` of a node that is not the root is an ordering of its legs -/
theorem inds_perm_legs (n : Net) (rm : List Ix) (s : BT) (h : s.leaves.length < n.inputs.length) :
    (n.inds rm s).Perm (keys (n.legs rm s)) := by
  induction s with
  | leaf i => exact List.Perm.refl _
  | node l r ihl ihr =>
    have hl : l.leaves.length < n.inputs.length := by
      simp only [BT.leaves, List.length_append] at h; omega
    have hr : r.leaves.length < n.inputs.length := by
      simp only [BT.leaves, List.length_append] at h; omega
    have hne : ((BT.node l r).leaves.length == n.inputs.length) = false := by
      simp only [beq_eq_false_iff_ne, ne_eq]; omega
    simp only [inds, hne, Bool.false_eq_true, if_false]
    rw [List.perm_ext_iff_of_nodup (nodup_uniq _) (keys_nodup_legs n rm _)]
    intro ix
    rw [mem_uniq, List.mem_filter, has_iff_mem_keys, List.mem_append, (ihl hl).mem_iff,
      (ihr hr).mem_iff]
    constructor
    · exact fun h => h.2
    · exact fun h => ⟨mem_keys_legs_node n rm l r ix h, h⟩

/-- the default table is admissible -/
theorem inds_ok (n : Net) (rm : List Ix) (t : BT) (hN : 2 ≤ n.inputs.length)
    (hc : Complete n t) : IndsOK n rm t (n.inds rm) := by
  have hNt := complete_length n t hc
  refine ⟨fun i => rfl, ?_, ?_⟩
  · cases t with
    | leaf i => simp [BT.leaves] at hNt; omega
    | node a b =>
      have : ((BT.node a b).leaves.length == n.inputs.length) = true := by rw [hNt]; simp
      simp only [inds, this, if_true, keys_rootLegs]
  · intro s hs hne
    exact inds_perm_legs n rm s (hNt ▸ internal_proper t s hs hne)

end Cotengra
