import CotengraVerif.Model.ContractNodes
import CotengraVerif.Lemmas.PathLemmas

/-!
  The linear-path checker as a run on *counts*: on unit items a step only changes the number of
  live tensors, `n ↦ n - |step| + 1`, provided the step is well formed for `n` (C05).
-/
namespace Cotengra
namespace Path

theorem splitAt_congr {α} (p q : List Nat) (xs : List α) (off : Nat)
    (h : ∀ i, off ≤ i → p.contains i = q.contains i) : splitAt p xs off = splitAt q xs off := by
  induction xs generalizing off with
  | nil => rfl
  | cons x t ih =>
    simp only [splitAt]
    rw [ih (off + 1) (fun i hi => h i (by omega)), h off (Nat.le_refl _)]

theorem splitAt_none {α} (p : List Nat) (xs : List α) (off : Nat) (h : ∀ i ∈ p, i < off) :
    splitAt p xs off = ([], xs) := by
  induction xs generalizing off with
  | nil => rfl
  | cons x t ih =>
    simp only [splitAt]
    have hc : p.contains off = false := by
      cases hh : p.contains off with
      | false => rfl
      | true =>
        have : off ∈ p := by simpa using hh
        have := h off this
        omega
    rw [hc, ih (off + 1) (fun i hi => by have := h i hi; omega)]
    simp

/-- distinct positions inside the list each pick one item -/
theorem splitAt_picked_length {α} (xs : List α) : ∀ (p : List Nat) (off : Nat), p.Nodup →
    (∀ i ∈ p, off ≤ i ∧ i < off + xs.length) → (splitAt p xs off).1.length = p.length := by
  induction xs with
  | nil =>
    intro p off _ hb
    cases p with
    | nil => rfl
    | cons a t =>
      have := hb a List.mem_cons_self
      simp at this
      omega
  | cons x t ih =>
    intro p off hnd hb
    simp only [splitAt]
    by_cases hc : p.contains off = true
    · rw [if_pos hc]
      have hmem : off ∈ p := by simpa using hc
      have hcongr := splitAt_congr p (p.erase off) t (off + 1) (by
        intro i hi
        have hne : i ≠ off := by omega
        have : i ∈ p.erase off ↔ i ∈ p := List.mem_erase_of_ne hne
        cases h1 : p.contains i <;> cases h2 : (p.erase off).contains i <;> simp_all)
      rw [hcongr]
      simp only [List.length_cons]
      rw [ih (p.erase off) (off + 1) (hnd.erase off) ?_]
      · rw [List.length_erase_of_mem hmem]
        have : 0 < p.length := List.length_pos_of_mem hmem
        omega
      · intro i hi
        have hi' := List.mem_of_mem_erase hi
        have hne : i ≠ off := by
          intro e
          subst e
          exact (List.Nodup.mem_erase_iff hnd).1 hi |>.1 rfl
        have := hb i hi'
        simp only [List.length_cons] at this
        omega
    · rw [if_neg hc]
      apply ih p (off + 1) hnd
      intro i hi
      have hne : i ≠ off := by
        intro e
        subst e
        exact hc (by simpa using hi)
      have := hb i hi
      simp only [List.length_cons] at this
      omega

theorem splitAt_rest_length {α} (xs : List α) (p : List Nat) (hnd : p.Nodup)
    (hb : ∀ i ∈ p, i < xs.length) : (splitAt p xs 0).2.length = xs.length - p.length := by
  have h1 := (splitAt_perm p xs 0).length_eq
  have h2 := splitAt_picked_length xs p 0 hnd (fun i hi => ⟨Nat.zero_le _, by simpa using hb i hi⟩)
  rw [List.length_append] at h1
  omega

theorem stepOK_iff (n : Nat) (p : Step) :
    stepOK n p = true ↔ (p ≠ [] ∧ p.Nodup ∧ ∀ i ∈ p, i < n) := by
  unfold stepOK
  simp only [Bool.and_eq_true, Bool.not_eq_true', List.isEmpty_eq_false_iff, decide_eq_true_eq,
    List.all_eq_true]
  constructor
  · rintro ⟨⟨h1, h2⟩, h3⟩; exact ⟨h1, h2, h3⟩
  · rintro ⟨h1, h2, h3⟩; exact ⟨⟨h1, h2⟩, h3⟩

theorem unit_list (l : List Unit) : l = List.replicate l.length () := by
  induction l with
  | nil => rfl
  | cons a t ih => rw [List.length_cons, List.replicate_succ, ← ih]

/-- the checker on counts -/
def countRun : Nat → Path → Option Nat
  | n, [] => some n
  | n, p :: rest => if stepOK n p then countRun (n - p.length + 1) rest else none

theorem stepLinear_unit (n : Nat) (p : Step) :
    stepLinear (fun _ : List Unit => ()) (List.replicate n ()) p =
      if stepOK n p then some (List.replicate (n - p.length + 1) ()) else none := by
  unfold stepLinear
  rw [List.length_replicate]
  by_cases h : stepOK n p = true
  · rw [if_pos h, if_pos h]
    obtain ⟨_, hnd, hb⟩ := (stepOK_iff n p).1 h
    have hl := splitAt_rest_length (List.replicate n ()) p hnd (by simpa using hb)
    rw [List.length_replicate] at hl
    show some ((splitAt p (List.replicate n ()) 0).2 ++ [()]) = _
    congr 1
    rw [unit_list ((splitAt p (List.replicate n ()) 0).2 ++ [()])]
    rw [List.length_append, hl]
    rfl
  · rw [if_neg h, if_neg h]

theorem runLinear_unit (path : Path) : ∀ n,
    runLinear (fun _ : List Unit => ()) (List.replicate n ()) path =
      (countRun n path).map fun m => List.replicate m () := by
  induction path with
  | nil => intro n; rfl
  | cons p rest ih =>
    intro n
    simp only [runLinear, countRun, stepLinear_unit]
    by_cases h : stepOK n p = true
    · simp only [h, if_true]; exact ih _
    · simp only [h]; rfl

theorem checkLinear_iff_count (N : Nat) (path : Path) :
    checkLinear N path = true ↔ countRun N path = some 1 := by
  unfold checkLinear
  rw [runLinear_unit]
  cases h : countRun N path with
  | none => simp
  | some m =>
    simp only [Option.map_some]
    match m with
    | 0 => simp
    | 1 => simp
    | m + 2 => simp [List.replicate_succ]

theorem checkLinearPartial_iff_count (N : Nat) (path : Path) :
    checkLinearPartial N path = true ↔ (countRun N path).isSome = true := by
  unfold checkLinearPartial
  rw [runLinear_unit]
  cases countRun N path <;> simp

theorem countRun_append (a b : Path) : ∀ n,
    countRun n (a ++ b) = (countRun n a).bind fun m => countRun m b := by
  induction a with
  | nil => intro n; rfl
  | cons p rest ih =>
    intro n
    simp only [List.cons_append, countRun]
    by_cases h : stepOK n p = true
    · simp only [h, if_true]; exact ih _
    · simp only [h]; rfl

/-- `RandomOptimizer`: whatever the PRNG draws, the path is a valid complete linear path -/
theorem randomPath_count : ∀ (draws : List (Nat × Nat)) (n : Nat), drawsOK n draws = true →
    countRun n (randomPath draws) = some 1 := by
  intro draws
  induction draws with
  | nil =>
    intro n h
    simp only [drawsOK, beq_iff_eq] at h
    subst h
    rfl
  | cons ij rest ih =>
    intro n h
    obtain ⟨i, j⟩ := ij
    simp only [drawsOK, Bool.and_eq_true, decide_eq_true_eq, bne_iff_ne, ne_eq] at h
    obtain ⟨⟨⟨⟨h2, hne⟩, hi⟩, hj⟩, hr⟩ := h
    have hok : stepOK n [i, j] = true := by
      rw [stepOK_iff]
      refine ⟨by simp, by simp [hne], ?_⟩
      intro k hk
      simp only [List.mem_cons, List.not_mem_nil, or_false] at hk
      rcases hk with e | e <;> subst e <;> assumption
    simp only [randomPath, List.map_cons, countRun, hok, if_true, List.length_cons, List.length_nil]
    have : n - (0 + 1 + 1) + 1 = n - 1 := by omega
    rw [this]
    exact ih (n - 1) hr

end Path
end Cotengra
