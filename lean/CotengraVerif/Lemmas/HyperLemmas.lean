import CotengraVerif.Model.Hyper
import Mathlib.Data.List.Basic

/-!
  Helper lemmas for C08 / C16 about `Model/Hyper.lean`: the order on scores, the effect of
  `report` / `assess` / `complete` on the parallel lists, and the best-so-far invariant.
-/
namespace Cotengra
namespace Hyper

/-! ## the order on scores -/

@[simp] theorem slt_none_left (b : Score) : slt none b = false := by cases b <;> rfl
@[simp] theorem slt_some_none (a : Nat) : slt (some a) none = true := rfl
@[simp] theorem slt_some_some (a b : Nat) : slt (some a) (some b) = decide (a < b) := rfl

theorem slt_irrefl (a : Score) : slt a a = false := by cases a <;> simp

theorem slt_trans {a b c : Score} (h1 : slt a b = true) (h2 : slt b c = true) :
    slt a c = true := by
  cases a <;> cases b <;> cases c <;> simp_all
  omega

theorem slt_asymm {a b : Score} (h : slt a b = true) : slt b a = false := by
  cases a <;> cases b <;> simp_all
  omega

/-- trichotomy: the order is total -/
theorem slt_total (a b : Score) : slt a b = true ∨ a = b ∨ slt b a = true := by
  cases a <;> cases b <;> simp
  omega

theorem sle_refl (a : Score) : sle a a = true := by simp [sle, slt_irrefl]

theorem sle_of_slt {a b : Score} (h : slt a b = true) : sle a b = true := by
  simp [sle, slt_asymm h]

theorem sle_trans {a b c : Score} (h1 : sle a b = true) (h2 : sle b c = true) :
    sle a c = true := by
  cases a <;> cases b <;> cases c <;> simp_all [sle]
  omega

theorem slt_of_slt_of_sle {a b c : Score} (h1 : slt a b = true) (h2 : sle b c = true) :
    slt a c = true := by
  cases a <;> cases b <;> cases c <;> simp_all [sle]
  omega

theorem sle_antisymm {a b : Score} (h1 : sle a b = true) (h2 : sle b a = true) : a = b := by
  cases a <;> cases b <;> simp_all [sle]
  omega

theorem sle_none (a : Score) : sle a none = true := by simp [sle]

theorem eq_none_of_not_slt_none {a : Score} (h : slt a none = false) : a = none := by
  cases a <;> simp_all

theorem sle_of_not_slt {a b : Score} (h : slt a b = false) : sle b a = true := by
  simp [sle, h]

theorem smin_le_left (a b : Score) : sle (smin a b) a = true := by
  unfold smin; split
  · rename_i h; exact sle_of_slt h
  · exact sle_refl a

theorem smin_le_right (a b : Score) : sle (smin a b) b = true := by
  unfold smin; split
  · exact sle_refl b
  · rename_i h; exact sle_of_not_slt (by simpa using h)

theorem smin_eq_or (a b : Score) : smin a b = a ∨ smin a b = b := by
  unfold smin; split <;> simp

/-! ## `minScore` is the minimum -/

theorem foldl_smin_le_init (l : List Score) (a : Score) : sle (l.foldl smin a) a = true := by
  induction l generalizing a with
  | nil => exact sle_refl a
  | cons x t ih => exact sle_trans (ih (smin a x)) (smin_le_left a x)

theorem foldl_smin_le_mem (l : List Score) (a : Score) (x : Score) (hx : x ∈ l) :
    sle (l.foldl smin a) x = true := by
  induction l generalizing a with
  | nil => cases hx
  | cons y t ih =>
    rcases List.mem_cons.1 hx with h | h
    · subst h
      exact sle_trans (foldl_smin_le_init t (smin a x)) (smin_le_right a x)
    · exact ih (smin a y) h

theorem foldl_smin_mem (l : List Score) (a : Score) :
    l.foldl smin a = a ∨ l.foldl smin a ∈ l := by
  induction l generalizing a with
  | nil => left; rfl
  | cons y t ih =>
    simp only [List.foldl_cons]
    rcases ih (smin a y) with h | h
    · rcases smin_eq_or a y with h2 | h2
      · left; rw [h, h2]
      · right; rw [h, h2]; exact List.mem_cons_self
    · right; exact List.mem_cons_of_mem _ h

theorem minScore_le (l : List Score) (x : Score) (hx : x ∈ l) : sle (minScore l) x = true :=
  foldl_smin_le_mem l none x hx

theorem minScore_mem (l : List Score) : minScore l = none ∨ minScore l ∈ l :=
  foldl_smin_mem l none

/-- `minScore` is characterised by: a lower bound that is attained (or `inf`) -/
theorem eq_minScore {l : List Score} {m : Score} (hle : ∀ x ∈ l, sle m x = true)
    (hmem : m = none ∨ m ∈ l) : m = minScore l := by
  apply sle_antisymm
  · rcases minScore_mem l with h | h
    · rw [h]; exact sle_none m
    · exact hle _ h
  · rcases hmem with h | h
    · rw [h]
      rcases minScore_mem l with h2 | h2
      · rw [h2]; exact sle_refl _
      · have := hle _ h2
        rw [h] at this
        rw [sle_antisymm (sle_none _) this]; exact sle_refl _
    · exact minScore_le l m h

/-! ## effect of one completion on the lists -/

section lists
variable (st : HState) (s : Setting) (t : Trial)

@[simp] theorem report_scores : (report st s t).scores = st.scores ++ [t.score] := rfl
@[simp] theorem report_flops : (report st s t).costsFlops = st.costsFlops ++ [t.flops] := rfl
@[simp] theorem report_write : (report st s t).costsWrite = st.costsWrite ++ [t.write] := rfl
@[simp] theorem report_size : (report st s t).costsSize = st.costsSize ++ [t.size] := rfl
@[simp] theorem report_methods :
    (report st s t).methodChoices = st.methodChoices ++ [s.method] := rfl
@[simp] theorem report_params : (report st s t).paramChoices = st.paramChoices ++ [s.params] := rfl
@[simp] theorem report_best : (report st s t).best = st.best := rfl
@[simp] theorem report_curBest : (report st s t).curBest = st.curBest := rfl
@[simp] theorem report_submitted : (report st s t).submitted = st.submitted := rfl
@[simp] theorem report_mts : (report st s t).maxTrainingSteps = st.maxTrainingSteps := rfl

@[simp] theorem assess_scores : (assess st t).scores = st.scores := by
  unfold assess; split <;> rfl
@[simp] theorem assess_flops : (assess st t).costsFlops = st.costsFlops := by
  unfold assess; split <;> rfl
@[simp] theorem assess_write : (assess st t).costsWrite = st.costsWrite := by
  unfold assess; split <;> rfl
@[simp] theorem assess_size : (assess st t).costsSize = st.costsSize := by
  unfold assess; split <;> rfl
@[simp] theorem assess_methods : (assess st t).methodChoices = st.methodChoices := by
  unfold assess; split <;> rfl
@[simp] theorem assess_params : (assess st t).paramChoices = st.paramChoices := by
  unfold assess; split <;> rfl
@[simp] theorem assess_submitted : (assess st t).submitted = st.submitted := by
  unfold assess; split <;> rfl
@[simp] theorem assess_mts : (assess st t).maxTrainingSteps = st.maxTrainingSteps := by
  unfold assess; split <;> rfl
@[simp] theorem assess_reports : (assess st t).optlibReports = st.optlibReports := by
  unfold assess; split <;> rfl
@[simp] theorem assess_bestScore : (assess st t).bestScore = st.bestScore := by
  unfold assess; split <;> rfl

@[simp] theorem complete_scores : (complete st s t).scores = st.scores ++ [t.score] := by
  simp [complete]
@[simp] theorem complete_flops : (complete st s t).costsFlops = st.costsFlops ++ [t.flops] := by
  simp [complete]
@[simp] theorem complete_write : (complete st s t).costsWrite = st.costsWrite ++ [t.write] := by
  simp [complete]
@[simp] theorem complete_size : (complete st s t).costsSize = st.costsSize ++ [t.size] := by
  simp [complete]
@[simp] theorem complete_methods :
    (complete st s t).methodChoices = st.methodChoices ++ [s.method] := by simp [complete]
@[simp] theorem complete_params :
    (complete st s t).paramChoices = st.paramChoices ++ [s.params] := by simp [complete]
@[simp] theorem complete_submitted : (complete st s t).submitted = st.submitted := by
  simp [complete]
@[simp] theorem complete_mts : (complete st s t).maxTrainingSteps = st.maxTrainingSteps := by
  simp [complete]

/-- the best record after one completion -/
theorem complete_best :
    (complete st s t).best =
      if slt t.score st.curBest then
        some { trial := t, params := some s.params, method := some s.method }
      else st.best := by
  unfold complete assess
  simp only [report_curBest, report_params, report_methods, List.getLast?_append,
    List.getLast?_singleton, Option.some_or]
  split <;> simp

end lists

/-- the ghost submission counter does not influence a completion -/
theorem complete_withSub (st : HState) (n : Nat) (s : Setting) (t : Trial) :
    complete { st with submitted := n } s t = { complete st s t with submitted := n } := by
  have hr : report { st with submitted := n } s t = { report st s t with submitted := n } := rfl
  have ha : ∀ st' : HState, assess { st' with submitted := n } t
      = { assess st' t with submitted := n } := by
    intro st'
    unfold assess
    have hc : HState.curBest { st' with submitted := n } = st'.curBest := rfl
    rw [hc]
    split <;> rfl
  unfold complete
  rw [hr, ha]

theorem runLog_withSub (st : HState) (n : Nat) (log : Log) :
    runLog { st with submitted := n } log = { runLog st log with submitted := n } := by
  induction log generalizing st with
  | nil => rfl
  | cons e l ih =>
    simp only [runLog, List.foldl_cons] at ih ⊢
    rw [complete_withSub, ih]

theorem runLog_append (st : HState) (l1 l2 : Log) :
    runLog st (l1 ++ l2) = runLog (runLog st l1) l2 := by
  simp [runLog, List.foldl_append]

theorem runLog_snoc (st : HState) (l : Log) (s : Setting) (t : Trial) :
    runLog st (l ++ [(s, t)]) = complete (runLog st l) s t := by
  simp [runLog, List.foldl_append]

@[simp] theorem runLog_nil (st : HState) : runLog st [] = st := rfl

@[simp] theorem runLog_submitted (st : HState) (log : Log) :
    (runLog st log).submitted = st.submitted := by
  induction log generalizing st with
  | nil => rfl
  | cons e l ih => simp only [runLog, List.foldl_cons] at ih ⊢; rw [ih]; simp

@[simp] theorem runLog_mts (st : HState) (log : Log) :
    (runLog st log).maxTrainingSteps = st.maxTrainingSteps := by
  induction log generalizing st with
  | nil => rfl
  | cons e l ih => simp only [runLog, List.foldl_cons] at ih ⊢; rw [ih]; simp

end Hyper
end Cotengra
