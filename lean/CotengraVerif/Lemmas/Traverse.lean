import CotengraVerif.Lemmas.TreeNodes

/-!
  `_traverse_ordered`: for every `order` function the yielded parents are a permutation of the
  internal nodes and every internal child is yielded before its parent.
-/
namespace Cotengra.Paths
open Cotengra

def nodesOf (q : List (BT × Nat)) : List BT := q.map (·.1)

/-- the internal nodes not yet in the queue: those strictly below an unseen queue entry -/
def pending (q : List (BT × Nat)) (seen : List BT) : List BT :=
  ((nodesOf q).filter (fun x => !seen.contains x)).flatMap properInternal

structure OInv (t : BT) (q : List (BT × Nat)) (seen : List BT) : Prop where
  perm : (nodesOf q ++ pending q seen).Perm t.internal
  seenNodup : seen.Nodup
  seenSub : ∀ x ∈ seen, x ∈ nodesOf q
  before : ∀ x ∈ seen, ∀ c ∈ ichildren x, [c, x].Sublist (nodesOf q)

theorem nodesOf_append (a b : List (BT × Nat)) : nodesOf (a ++ b) = nodesOf a ++ nodesOf b := by
  simp [nodesOf]

theorem map_insertIdx' {α β : Type _} (f : α → β) (l : List α) (k : Nat) (x : α) :
    (l.insertIdx k x).map f = (l.map f).insertIdx k (f x) := by
  induction l generalizing k with
  | nil => cases k <;> simp
  | cons a t ih =>
    cases k with
    | zero => simp
    | succ k => simp [List.insertIdx_succ_cons, ih]

theorem nodesOf_insertChild (order : BT → Nat) (pre : List (BT × Nat)) (c : BT) :
    ∃ k, k ≤ (nodesOf pre).length ∧ nodesOf (insertChild order pre c) = (nodesOf pre).insertIdx k c := by
  refine ⟨bisectRight (pre.map (·.2)) (order c), ?_, ?_⟩
  · have := bisectRight_le (pre.map (·.2)) (order c)
    simpa [nodesOf] using this
  · unfold insertChild nodesOf
    exact map_insertIdx' _ _ _ _

theorem nodesOf_foldl_insertChild (order : BT → Nat) (pre : List (BT × Nat)) (cs : List BT) :
    (nodesOf (cs.foldl (insertChild order) pre)).Perm (cs ++ nodesOf pre) ∧
      (nodesOf pre).Sublist (nodesOf (cs.foldl (insertChild order) pre)) := by
  induction cs generalizing pre with
  | nil => exact ⟨List.Perm.refl _, List.Sublist.refl _⟩
  | cons c cs ih =>
    obtain ⟨k, hk, he⟩ := nodesOf_insertChild order pre c
    obtain ⟨h1, h2⟩ := ih (insertChild order pre c)
    rw [List.foldl_cons]
    constructor
    · refine h1.trans ?_
      rw [he]
      have := List.perm_insertIdx c (nodesOf pre) hk
      exact (List.Perm.append_left cs this).trans (by
        simp only [List.cons_append]
        exact List.perm_middle)
    · refine List.Sublist.trans ?_ h2
      rw [he]
      exact List.sublist_insertIdx _ _ _

theorem pending_perm_of_nodes {q q' : List (BT × Nat)} (seen : List BT)
    (h : (nodesOf q).Perm (nodesOf q')) : (pending q seen).Perm (pending q' seen) :=
  List.Perm.flatMap_right _ (List.Perm.filter _ h)

theorem internal_node_eq (l r : BT) :
    (BT.node l r).internal = properInternal (.node l r) ++ [.node l r] := rfl

/-- processing an unseen queue entry `x`: its internal children are inserted somewhere in the
    scanned part, `x` becomes seen -/
theorem oinv_process (t : BT) (hnd : t.internal.Nodup) (order : BT → Nat)
    (pre rest : List (BT × Nat)) (x : BT) (sx : Nat) (seen : List BT)
    (h : OInv t (pre ++ (x, sx) :: rest) seen) (hx : x ∉ seen) :
    OInv t ((ichildren x).foldl (insertChild order) pre ++ (x, sx) :: rest) (x :: seen) := by
  obtain ⟨hperm, hsub⟩ := nodesOf_foldl_insertChild order pre (ichildren x)
  set pre' := (ichildren x).foldl (insertChild order) pre with hpre'
  have hA : nodesOf (pre ++ (x, sx) :: rest) = nodesOf pre ++ x :: nodesOf rest := by
    simp [nodesOf]
  have hA' : nodesOf (pre' ++ (x, sx) :: rest) = nodesOf pre' ++ x :: nodesOf rest := by
    simp [nodesOf]
  -- the whole multiset is duplicate free
  have hallnd : (nodesOf (pre ++ (x, sx) :: rest) ++ pending (pre ++ (x, sx) :: rest) seen).Nodup :=
    h.perm.nodup_iff.2 hnd
  have hAnd : (nodesOf (pre ++ (x, sx) :: rest)).Nodup := (List.nodup_append.1 hallnd).1
  have hxA : x ∈ nodesOf (pre ++ (x, sx) :: rest) := by rw [hA]; simp
  -- unseen entries of the old queue: `x` and the others
  have hU : ((nodesOf (pre ++ (x, sx) :: rest)).filter (fun y => !seen.contains y)).Perm
      (x :: ((nodesOf (pre ++ (x, sx) :: rest)).filter (fun y => !(x :: seen).contains y))) := by
    rw [hA]
    have hxpre : x ∉ nodesOf pre := by
      rw [hA] at hAnd
      have := (List.nodup_append.1 hAnd).2.2
      intro hm; exact this x hm x (by simp) rfl
    have hxrest : x ∉ nodesOf rest := by
      rw [hA] at hAnd
      have := (List.nodup_append.1 hAnd).2.1
      exact (List.nodup_cons.1 this).1
    have hb : (!seen.contains x) = true := by simpa using hx
    have e1 : (nodesOf pre).filter (fun y => !(x :: seen).contains y) =
        (nodesOf pre).filter (fun y => !seen.contains y) := by
      apply List.filter_congr
      intro y hy
      have : y ≠ x := fun e => hxpre (e ▸ hy)
      simp [this]
    have e2 : (nodesOf rest).filter (fun y => !(x :: seen).contains y) =
        (nodesOf rest).filter (fun y => !seen.contains y) := by
      apply List.filter_congr
      intro y hy
      have : y ≠ x := fun e => hxrest (e ▸ hy)
      simp [this]
    simp only [List.filter_append, List.filter_cons, hb, if_true, List.contains_cons, BEq.rfl,
      Bool.true_or, Bool.not_true, Bool.false_eq_true, if_false]
    rw [show (nodesOf pre).filter (fun y => !(y == x || seen.contains y)) =
        (nodesOf pre).filter (fun y => !seen.contains y) from by simpa using e1,
      show (nodesOf rest).filter (fun y => !(y == x || seen.contains y)) =
        (nodesOf rest).filter (fun y => !seen.contains y) from by simpa using e2]
    exact List.perm_middle
  have hpend : (pending (pre ++ (x, sx) :: rest) seen).Perm
      (properInternal x ++
        ((nodesOf (pre ++ (x, sx) :: rest)).filter (fun y => !(x :: seen).contains y)).flatMap
          properInternal) := by
    unfold pending
    exact (List.Perm.flatMap_right _ hU).trans (by simp)
  -- children of x are not in the old queue, hence unseen
  have hcnot : ∀ c ∈ ichildren x, c ∉ nodesOf (pre ++ (x, sx) :: rest) := by
    intro c hc hm
    have hcp : c ∈ pending (pre ++ (x, sx) :: rest) seen :=
      hpend.mem_iff.2 (List.mem_append_left _ (ichildren_sub x c hc))
    exact (List.nodup_append.1 hallnd).2.2 c hm c hcp rfl
  have hcseen : ∀ c ∈ ichildren x, c ∉ x :: seen := by
    intro c hc hm
    rcases List.mem_cons.1 hm with e | hm
    · exact ichildren_ne x c hc e
    · exact hcnot c hc (h.seenSub c hm)
  -- new queue nodes
  have hAperm : (nodesOf (pre' ++ (x, sx) :: rest)).Perm
      (ichildren x ++ nodesOf (pre ++ (x, sx) :: rest)) := by
    rw [hA, hA']
    exact (List.Perm.append_right _ hperm).trans (by simp)
  refine ⟨?_, ?_, ?_, ?_⟩
  · -- multiset invariant
    have hU' : ((nodesOf (pre' ++ (x, sx) :: rest)).filter (fun y => !(x :: seen).contains y)).Perm
        (ichildren x ++
          (nodesOf (pre ++ (x, sx) :: rest)).filter (fun y => !(x :: seen).contains y)) := by
      refine (List.Perm.filter _ hAperm).trans ?_
      rw [List.filter_append]
      have : (ichildren x).filter (fun y => !(x :: seen).contains y) = ichildren x := by
        apply List.filter_eq_self.2
        intro c hc
        have := hcseen c hc
        simpa using this
      rw [this]
    have hpend' : (pending (pre' ++ (x, sx) :: rest) (x :: seen)).Perm
        ((ichildren x).flatMap properInternal ++
          ((nodesOf (pre ++ (x, sx) :: rest)).filter (fun y => !(x :: seen).contains y)).flatMap
            properInternal) := by
      unfold pending
      exact (List.Perm.flatMap_right _ hU').trans (by simp)
    refine ((List.Perm.append hAperm hpend').trans ?_).trans h.perm
    refine List.Perm.trans ?_ (List.Perm.append_left _ hpend.symm)
    have hpi := properInternal_perm x
    -- (C ++ A) ++ (CP ++ R)  ~  A ++ ((C ++ CP) ++ R)
    refine List.Perm.trans ?_ (List.Perm.append_left _ (List.Perm.append_right _ hpi.symm))
    simp only [List.append_assoc]
    refine (List.perm_append_comm_assoc _ _ _).trans ?_
    refine List.Perm.append_left _ ?_
    refine List.Perm.append_left _ ?_
    exact List.Perm.refl _
  · exact List.nodup_cons.2 ⟨hx, h.seenNodup⟩
  · intro y hy
    rcases List.mem_cons.1 hy with rfl | hy
    · rw [hA']; simp
    · have := h.seenSub y hy
      rw [hA] at this; rw [hA']
      rcases List.mem_append.1 this with h1 | h1
      · exact List.mem_append_left _ (hsub.subset h1)
      · exact List.mem_append_right _ h1
  · intro y hy c hc
    have hsubA : (nodesOf (pre ++ (x, sx) :: rest)).Sublist (nodesOf (pre' ++ (x, sx) :: rest)) := by
      rw [hA, hA']
      exact List.Sublist.append hsub (List.Sublist.refl _)
    rcases List.mem_cons.1 hy with rfl | hy
    · rw [hA']
      have hcm : c ∈ nodesOf pre' := hperm.mem_iff.2 (List.mem_append_left _ hc)
      have h1 : [c].Sublist (nodesOf pre') := List.singleton_sublist.2 hcm
      have h2 : [y].Sublist (y :: nodesOf rest) := by simp
      exact List.Sublist.append h1 h2
    · exact (h.before y hy c hc).trans hsubA

theorem sweep_spec (t : BT) (hnd : t.internal.Nodup) (order : BT → Nat)
    (rest pre : List (BT × Nat)) (seen : List BT) (h : OInv t (pre ++ rest) seen) :
    OInv t (sweep order pre rest seen).1 (sweep order pre rest seen).2 ∧
      seen.length ≤ (sweep order pre rest seen).2.length ∧
      ((∃ x ∈ nodesOf rest, x ∉ seen) → seen.length < (sweep order pre rest seen).2.length) := by
  induction rest generalizing pre seen with
  | nil =>
    simp only [sweep, List.append_nil] at h ⊢
    exact ⟨h, Nat.le_refl _, by simp [nodesOf]⟩
  | cons a rest ih =>
    obtain ⟨x, sx⟩ := a
    unfold sweep
    by_cases hx : seen.contains x = true
    · simp only [hx, if_true]
      have h' : OInv t ((pre ++ [(x, sx)]) ++ rest) seen := by
        rw [List.append_assoc]; exact h
      obtain ⟨i1, i2, i3⟩ := ih (pre ++ [(x, sx)]) seen h'
      refine ⟨i1, i2, ?_⟩
      rintro ⟨y, hy, hys⟩
      apply i3
      simp only [nodesOf, List.map_cons, List.mem_cons] at hy
      rcases hy with rfl | hy
      · exact absurd (by simpa using hx) hys
      · exact ⟨y, hy, hys⟩
    · simp only [hx, Bool.false_eq_true, if_false]
      have hx' : x ∉ seen := by simpa using hx
      have h' := oinv_process t hnd order pre rest x sx seen h hx'
      have h'' : OInv t (((ichildren x).foldl (insertChild order) pre ++ [(x, sx)]) ++ rest) (x :: seen) := by
        rw [List.append_assoc]; exact h'
      obtain ⟨i1, i2, _⟩ := ih _ (x :: seen) h''
      refine ⟨i1, ?_, fun _ => ?_⟩
      · simp only [List.length_cons] at i2; omega
      · simp only [List.length_cons] at i2; omega

theorem all_seen_of_length (t : BT) (q : List (BT × Nat)) (seen : List BT) (h : OInv t q seen)
    (hlen : t.internal.length ≤ seen.length) :
    (nodesOf q).Perm t.internal ∧ ∀ x ∈ nodesOf q, x ∈ seen := by
  have h1 : seen.Subperm (nodesOf q) := List.subperm_of_subset h.seenNodup h.seenSub
  have h2 : (nodesOf q).length ≤ t.internal.length := by
    have := h.perm.length_eq
    simp only [List.length_append] at this; omega
  have h3 : seen.Perm (nodesOf q) := h1.perm_of_length_le (by omega)
  have hall : ∀ x ∈ nodesOf q, x ∈ seen := fun x hx => h3.mem_iff.2 hx
  have hp : pending q seen = [] := by
    unfold pending
    have : (nodesOf q).filter (fun x => !seen.contains x) = [] := by
      apply List.filter_eq_nil_iff.2
      intro x hx
      simp [hall x hx]
    rw [this]; rfl
  have := h.perm
  rw [hp, List.append_nil] at this
  exact ⟨this, hall⟩

theorem seen_le (t : BT) (q : List (BT × Nat)) (seen : List BT) (h : OInv t q seen) :
    seen.length ≤ t.internal.length := by
  have h1 : seen.Subperm (nodesOf q) := List.subperm_of_subset h.seenNodup h.seenSub
  have := h1.length_le
  have h2 := h.perm.length_eq
  simp only [List.length_append] at h2; omega

theorem orderedLoop_spec (t : BT) (hnd : t.internal.Nodup) (order : BT → Nat) (f : Nat)
    (q : List (BT × Nat)) (seen : List BT) (h : OInv t q seen)
    (hf : t.internal.length - seen.length < f) :
    (nodesOf (orderedLoop order t.internal.length f q seen)).Perm t.internal ∧
      ∀ x ∈ nodesOf (orderedLoop order t.internal.length f q seen), ∀ c ∈ ichildren x,
        [c, x].Sublist (nodesOf (orderedLoop order t.internal.length f q seen)) := by
  induction f generalizing q seen with
  | zero => omega
  | succ f ih =>
    unfold orderedLoop
    by_cases he : seen.length = t.internal.length
    · simp only [he, if_true]
      obtain ⟨hp, hall⟩ := all_seen_of_length t q seen h (by omega)
      exact ⟨hp, fun x hx c hc => h.before x (hall x hx) c hc⟩
    · simp only [he, if_false]
      have hle := seen_le t q seen h
      obtain ⟨i1, i2, i3⟩ := sweep_spec t hnd order q [] seen (by simpa using h)
      have hex : ∃ x ∈ nodesOf q, x ∉ seen := by
        apply Classical.byContradiction
        intro hno
        have hall : ∀ x ∈ nodesOf q, x ∈ seen := by
          intro x hx
          apply Classical.byContradiction
          intro hxs; exact hno ⟨x, hx, hxs⟩
        have hp : pending q seen = [] := by
          unfold pending
          have : (nodesOf q).filter (fun x => !seen.contains x) = [] := by
            apply List.filter_eq_nil_iff.2
            intro x hx
            simp [hall x hx]
          rw [this]; rfl
        have hperm := h.perm
        rw [hp, List.append_nil] at hperm
        have h1 : (nodesOf q).Subperm seen :=
          List.subperm_of_subset (hperm.nodup_iff.2 hnd) hall
        have := h1.length_le
        have := hperm.length_eq
        omega
      have := i3 hex
      exact ih _ _ i1 (by omega)

/-- **`_traverse_ordered`**, every `order`: a permutation of the internal nodes with every
    internal child before its parent -/
theorem traverseOrdered_spec (l r : BT) (hn : (BT.node l r).leaves.Nodup) (order : BT → Nat) :
    (traverseOrdered (.node l r) order).Perm (BT.node l r).internal ∧
      ∀ x ∈ traverseOrdered (.node l r) order, ∀ c ∈ ichildren x,
        [c, x].Sublist (traverseOrdered (.node l r) order) := by
  have hnd := internal_nodup _ hn
  have h0 : OInv (.node l r) [(.node l r, order (.node l r))] [] := by
    refine ⟨?_, List.Pairwise.nil, by simp, by simp⟩
    simp only [nodesOf, pending, List.map_cons, List.map_nil, List.contains_nil, Bool.not_false,
      List.filter_cons, if_true, List.filter_nil, List.flatMap_cons, List.flatMap_nil, List.append_nil]
    rw [internal_node_eq]
    exact (List.perm_append_comm)
  exact orderedLoop_spec (.node l r) hnd order _ _ [] h0 (by simp)

end Cotengra.Paths
