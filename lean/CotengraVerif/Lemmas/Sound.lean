import CotengraVerif.Lemmas.Einsum
import CotengraVerif.Lemmas.Legs
import Mathlib.Data.List.Perm.Subperm

/-!
  The invariant of the soundness proof of the admissibility checker, and its preservation by a
  preprocessing step (`unary_step`) and by a pairwise step (`binary_step`).

  Invariant for an entry `(S, axes, arr)` of `temps` (`EntryInv`): `S` are distinct inputs;
  the array has the shape of its axis list; its axes are indices occurring under `S`; every
  index occurring under `S` that is *not* an axis is closed in `S` (all its appearances are
  under `S`); and, read through its axis list, the array is the partial einsum of the operands
  `S` with exactly those missing indices summed.
-/
namespace Cotengra
open Cotengra.Net

namespace Net

/-! ### occurrence counts over leaf lists -/

theorem cntL_append (n : Net) (rm : List Ix) (S T : List Nat) (ix : Ix) :
    n.cntL rm (S ++ T) ix = n.cntL rm S ix + n.cntL rm T ix := by
  simp [cntL]

theorem cntL_perm (n : Net) (rm : List Ix) {S T : List Nat} (h : S.Perm T) (ix : Ix) :
    n.cntL rm S ix = n.cntL rm T ix := by
  unfold cntL
  exact (h.map _).sum_eq

theorem cntL_eq_zero_iff (n : Net) (rm : List Ix) (S : List Nat) (ix : Ix) :
    n.cntL rm S ix = 0 ↔ ∀ i ∈ S, ix ∉ n.termRm rm i := by
  unfold cntL occ
  rw [List.sum_eq_zero_iff]
  constructor
  · intro h i hi
    have := h _ (List.mem_map.2 ⟨i, hi, rfl⟩)
    exact List.count_eq_zero.1 this
  · intro h x hx
    obtain ⟨i, hi, rfl⟩ := List.mem_map.1 hx
    exact List.count_eq_zero.2 (h i hi)

theorem mem_occL (n : Net) (rm : List Ix) (S : List Nat) (ix : Ix) :
    ix ∈ n.occL rm S ↔ ∃ i ∈ S, ix ∈ n.termRm rm i := by
  simp [occL, mem_uniq, List.mem_flatMap]

theorem mem_occL_iff_pos (n : Net) (rm : List Ix) (S : List Nat) (ix : Ix) :
    ix ∈ n.occL rm S ↔ 0 < n.cntL rm S ix := by
  rw [mem_occL, Nat.pos_iff_ne_zero, Ne, cntL_eq_zero_iff]
  push Not
  rfl

theorem occL_nodup (n : Net) (rm : List Ix) (S : List Nat) : (n.occL rm S).Nodup :=
  nodup_uniq _

/-- distinct in-range inputs hold at most all appearances -/
theorem cntL_le_app (n : Net) (rm : List Ix) (S : List Nat) (hd : S.Nodup)
    (hb : ∀ i ∈ S, i < n.inputs.length) (ix : Ix) : n.cntL rm S ix ≤ n.app ix := by
  have : n.cntL rm S ix ≤ n.appIn ix := by
    unfold cntL
    calc (S.map fun i => occ (n.termRm rm i) ix).sum
        ≤ (S.map fun i => occ (n.term i) ix).sum := by
          apply List.sum_le_sum
          intro i _
          exact occ_termRm_le n rm i ix
      _ ≤ ((List.range n.inputs.length).map fun i => occ (n.term i) ix).sum :=
          sum_map_nodup_le _ _ _ hd hb
      _ = n.appIn ix := (appIn_eq_range n ix).symm
  unfold app
  omega

/-- an index closed in `L` does not occur in a disjoint `R` -/
theorem cntL_zero_of_closed (n : Net) (rm : List Ix) (L R : List Nat) (hd : (L ++ R).Nodup)
    (hb : ∀ i ∈ L ++ R, i < n.inputs.length) (ix : Ix) (hc : n.cntL rm L ix = n.app ix) :
    n.cntL rm R ix = 0 := by
  have := cntL_le_app n rm (L ++ R) hd hb ix
  rw [cntL_append] at this
  omega

theorem closedIn_iff (n : Net) (rm : List Ix) (S : List Nat) (ix : Ix) :
    n.closedIn rm S ix = true ↔ n.cntL rm S ix = n.app ix := by
  simp [closedIn]

theorem closedCheck_iff (n : Net) (rm : List Ix) (S : List Nat) (axIn axOut : List Ix) :
    n.closedCheck rm S axIn axOut = true ↔
      ∀ ix ∈ axIn, ix ∉ axOut → n.cntL rm S ix = n.app ix := by
  simp only [closedCheck, List.all_eq_true, Bool.or_eq_true, List.contains_iff_mem, closedIn_iff]
  constructor
  · intro h ix hix hno
    rcases h ix hix with h' | h'
    · exact absurd h' hno
    · exact h'
  · intro h ix hix
    by_cases hm : ix ∈ axOut
    · exact Or.inl hm
    · exact Or.inr (h ix hix hm)

/-- indices occurring under `S` that are not axes: the ones already summed -/
def missing (n : Net) (rm : List Ix) (S : List Nat) (axes : List Ix) : List Ix :=
  (n.occL rm S).filter fun ix => !axes.contains ix

theorem mem_missing (n : Net) (rm : List Ix) (S : List Nat) (axes : List Ix) (ix : Ix) :
    ix ∈ n.missing rm S axes ↔ ix ∈ n.occL rm S ∧ ix ∉ axes := by
  simp [missing]

theorem missing_nodup (n : Net) (rm : List Ix) (S : List Nat) (axes : List Ix) :
    (n.missing rm S axes).Nodup := (occL_nodup n rm S).filter _

end Net

section
variable {R : Type} [CommSemiring R]

/-- the product over `S` does not look at an index that occurs in no term of `S` -/
theorem indep_prodS (n : Net) (rm : List Ix) (A : Nat → Arr R) (S : List Nat) (k : Ix)
    (h : n.cntL rm S k = 0) : Indep (n.prodS rm A S) k := by
  intro σ v
  unfold Net.prodS
  apply prodOver_congr
  intro i hi
  congr 1
  apply List.map_congr_left
  intro ix hix
  have hne : ix ≠ k := by
    intro e
    subst e
    exact (Net.cntL_eq_zero_iff n rm S ix).1 h i hi hix
  exact upd_other σ k v ix hne

theorem prodS_append (n : Net) (rm : List Ix) (A : Nat → Arr R) (S T : List Nat)
    (σ : Ix → Nat) : n.prodS rm A (S ++ T) σ = n.prodS rm A S σ * n.prodS rm A T σ :=
  prodOver_append S T _

theorem prodS_perm (n : Net) (rm : List Ix) (A : Nat → Arr R) {S T : List Nat} (h : S.Perm T)
    (σ : Ix → Nat) : n.prodS rm A S σ = n.prodS rm A T σ :=
  prodOver_perm h _

/-- the invariant of one `temps` entry -/
structure EntryInv (n : Net) (rm : List Ix) (A : Nat → Arr R) (S : List Nat) (axes : List Ix)
    (arr : Arr R) : Prop where
  nodup : S.Nodup
  inrange : ∀ i ∈ S, i < n.inputs.length
  shape : arr.shape = axes.map n.size
  sub : ∀ ix ∈ axes, ix ∈ n.occL rm S
  closed : ∀ ix ∈ n.occL rm S, ix ∉ axes → n.cntL rm S ix = n.app ix
  val : ∀ σ, arr.val (axes.map σ) =
    sumOver n.size (n.missing rm S axes) σ (n.prodS rm A S)

/-- **preprocessing step**: a one-operand einsum accepted by the checker preserves the
    invariant -/
theorem unary_step (n : Net) (rm : List Ix) (A : Nat → Arr R) {S : List Nat}
    {lhs out ax : List Nat} {a : Arr R} (inv : EntryInv n rm A S ax a)
    (B : Binding lhs ax out)
    (hc : ∀ ix ∈ ax, ix ∉ out.map B.phi → n.cntL rm S ix = n.app ix) :
    ∃ p, einsum1 lhs out a = some p ∧ EntryInv n rm A S (out.map B.phi) p := by
  obtain ⟨p, hp, hshape, hval⟩ := einsum1_sem B n.size a inv.shape
  refine ⟨p, hp, inv.nodup, inv.inrange, hshape, ?_, ?_, ?_⟩
  · intro ix hix
    exact inv.sub ix (B.produced_subset hix)
  · intro ix hocc hno
    by_cases hax : ix ∈ ax
    · exact hc ix hax hno
    · exact inv.closed ix hocc hax
  · intro σ
    rw [hval σ]
    have h1 : ∀ τ, a.val (ax.map τ) =
        sumOver n.size (n.missing rm S ax) τ (n.prodS rm A S) := inv.val
    rw [sumOver_congr n.size B.K σ h1, ← sumOver_append]
    apply sumOver_perm
    · rw [List.perm_ext_iff_of_nodup]
      · intro ix
        rw [List.mem_append, B.mem_K, Net.mem_missing, Net.mem_missing]
        constructor
        · rintro (⟨h1, h2⟩ | ⟨h1, h2⟩)
          · exact ⟨inv.sub ix h1, h2⟩
          · exact ⟨h1, fun h => h2 (B.produced_subset h)⟩
        · rintro ⟨h1, h2⟩
          by_cases hax : ix ∈ ax
          · exact Or.inl ⟨hax, h2⟩
          · exact Or.inr ⟨h1, hax⟩
      · rw [List.nodup_append]
        refine ⟨B.K_nodup, Net.missing_nodup n rm S ax, ?_⟩
        intro x hx y hy e
        subst e
        exact ((Net.mem_missing n rm S ax x).1 hy).2 (B.mem_K.1 hx).1
      · exact Net.missing_nodup n rm S _
    · rw [List.nodup_append]
      refine ⟨B.K_nodup, Net.missing_nodup n rm S ax, ?_⟩
      intro x hx y hy e
      subst e
      exact ((Net.mem_missing n rm S ax x).1 hy).2 (B.mem_K.1 hx).1

theorem occL_append_mem (n : Net) (rm : List Ix) (L Rr : List Nat) (ix : Ix) :
    ix ∈ n.occL rm (L ++ Rr) ↔ ix ∈ n.occL rm L ∨ ix ∈ n.occL rm Rr := by
  simp only [Net.mem_occL, List.mem_append]
  constructor
  · rintro ⟨i, hi | hi, h⟩
    · exact Or.inl ⟨i, hi, h⟩
    · exact Or.inr ⟨i, hi, h⟩
  · rintro (⟨i, hi, h⟩ | ⟨i, hi, h⟩)
    · exact ⟨i, Or.inl hi, h⟩
    · exact ⟨i, Or.inr hi, h⟩

theorem occL_perm_mem (n : Net) (rm : List Ix) {S T : List Nat} (h : S.Perm T) (ix : Ix) :
    ix ∈ n.occL rm S ↔ ix ∈ n.occL rm T := by
  simp only [Net.mem_occL]
  constructor
  · rintro ⟨i, hi, hx⟩; exact ⟨i, h.mem_iff.1 hi, hx⟩
  · rintro ⟨i, hi, hx⟩; exact ⟨i, h.mem_iff.2 hi, hx⟩

/-- **pairwise step**: a two-operand einsum accepted by the checker, applied to two entries
    over disjoint inputs, yields an entry for their union that satisfies the invariant.
    (Fubini + distributivity: `sumOver_fubini`.) -/
theorem binary_step (n : Net) (rm : List Ix) (A : Nat → Arr R) {L Rr P : List Nat}
    {lA lB out axL axR : List Nat} {a b : Arr R}
    (invL : EntryInv n rm A L axL a) (invR : EntryInv n rm A Rr axR b)
    (hP : P.Perm (L ++ Rr)) (hd : (L ++ Rr).Nodup)
    (B : Binding (lA ++ lB) (axL ++ axR) out)
    (hlA : lA.length = axL.length) (hlB : lB.length = axR.length)
    (hc : ∀ ix ∈ axL ++ axR, ix ∉ out.map B.phi → n.cntL rm P ix = n.app ix) :
    ∃ p, einsum2 lA lB out a b = some p ∧ EntryInv n rm A P (out.map B.phi) p := by
  obtain ⟨p, hp, hshape, hval⟩ := einsum2_sem B hlA hlB n.size a b invL.shape invR.shape
  have hbLR : ∀ i ∈ L ++ Rr, i < n.inputs.length := by
    intro i hi
    rcases List.mem_append.1 hi with h | h
    · exact invL.inrange i h
    · exact invR.inrange i h
  have hdRL : (Rr ++ L).Nodup := (List.perm_append_comm.nodup_iff).1 hd
  have hbRL : ∀ i ∈ Rr ++ L, i < n.inputs.length := by
    intro i hi
    exact hbLR i (List.perm_append_comm.mem_iff.1 hi)
  -- an index missing on one side does not occur on the other side
  have mL_R : ∀ k ∈ n.missing rm L axL, n.cntL rm Rr k = 0 := by
    intro k hk
    obtain ⟨h1, h2⟩ := (Net.mem_missing n rm L axL k).1 hk
    exact Net.cntL_zero_of_closed n rm L Rr hd hbLR k (invL.closed k h1 h2)
  have mR_L : ∀ k ∈ n.missing rm Rr axR, n.cntL rm L k = 0 := by
    intro k hk
    obtain ⟨h1, h2⟩ := (Net.mem_missing n rm Rr axR k).1 hk
    exact Net.cntL_zero_of_closed n rm Rr L hdRL hbRL k (invR.closed k h1 h2)
  have occP : ∀ ix, ix ∈ n.occL rm P ↔ ix ∈ n.occL rm L ∨ ix ∈ n.occL rm Rr := by
    intro ix
    rw [occL_perm_mem n rm hP, occL_append_mem]
  have cntP : ∀ ix, n.cntL rm P ix = n.cntL rm L ix + n.cntL rm Rr ix := by
    intro ix
    rw [Net.cntL_perm n rm hP, Net.cntL_append]
  have axL_notin_mR : ∀ k ∈ axL, k ∉ n.missing rm Rr axR := by
    intro k hk hm
    have := (Net.mem_occL_iff_pos n rm L k).1 (invL.sub k hk)
    have := mR_L k hm
    omega
  have axR_notin_mL : ∀ k ∈ axR, k ∉ n.missing rm L axL := by
    intro k hk hm
    have := (Net.mem_occL_iff_pos n rm Rr k).1 (invR.sub k hk)
    have := mL_R k hm
    omega
  have hdisj_m : ∀ k ∈ n.missing rm L axL, k ∉ n.missing rm Rr axR := by
    intro k hk hm
    have h1 := (Net.mem_occL_iff_pos n rm L k).1 ((Net.mem_missing n rm L axL k).1 hk).1
    have := mR_L k hm
    omega
  have hnd : (B.K ++ (n.missing rm L axL ++ n.missing rm Rr axR)).Nodup := by
    rw [List.nodup_append]
    refine ⟨B.K_nodup, ?_, ?_⟩
    · rw [List.nodup_append]
      refine ⟨Net.missing_nodup n rm L axL, Net.missing_nodup n rm Rr axR, ?_⟩
      intro x hx y hy e
      subst e
      exact hdisj_m x hx hy
    · intro x hx y hy e
      subst e
      have hxs := (B.mem_K.1 hx).1
      rcases List.mem_append.1 hy with hy | hy
      · rcases List.mem_append.1 hxs with h | h
        · exact ((Net.mem_missing n rm L axL x).1 hy).2 h
        · exact axR_notin_mL x h hy
      · rcases List.mem_append.1 hxs with h | h
        · exact axL_notin_mR x h hy
        · exact ((Net.mem_missing n rm Rr axR x).1 hy).2 h
  have hperm : (B.K ++ (n.missing rm L axL ++ n.missing rm Rr axR)).Perm
      (n.missing rm P (out.map B.phi)) := by
    rw [List.perm_ext_iff_of_nodup hnd (Net.missing_nodup n rm P _)]
    intro ix
    simp only [List.mem_append, B.mem_K, Net.mem_missing, occP]
    constructor
    · rintro (⟨h1, h2⟩ | ⟨h1, h2⟩ | ⟨h1, h2⟩)
      · rcases h1 with h | h
        · exact ⟨Or.inl (invL.sub ix h), h2⟩
        · exact ⟨Or.inr (invR.sub ix h), h2⟩
      · refine ⟨Or.inl h1, fun h => ?_⟩
        rcases List.mem_append.1 (B.produced_subset h) with h' | h'
        · exact h2 h'
        · exact axR_notin_mL ix h' ((Net.mem_missing n rm L axL ix).2 ⟨h1, h2⟩)
      · refine ⟨Or.inr h1, fun h => ?_⟩
        rcases List.mem_append.1 (B.produced_subset h) with h' | h'
        · exact axL_notin_mR ix h' ((Net.mem_missing n rm Rr axR ix).2 ⟨h1, h2⟩)
        · exact h2 h'
    · rintro ⟨h1, h2⟩
      by_cases hl : ix ∈ axL
      · exact Or.inl ⟨Or.inl hl, h2⟩
      · by_cases hr : ix ∈ axR
        · exact Or.inl ⟨Or.inr hr, h2⟩
        · rcases h1 with h | h
          · exact Or.inr (Or.inl ⟨h, hl⟩)
          · exact Or.inr (Or.inr ⟨h, hr⟩)
  refine ⟨p, hp, hP.nodup_iff.2 hd, fun i hi => hbLR i (hP.mem_iff.1 hi), hshape, ?_, ?_, ?_⟩
  · intro ix hix
    rw [occP]
    rcases List.mem_append.1 (B.produced_subset hix) with h | h
    · exact Or.inl (invL.sub ix h)
    · exact Or.inr (invR.sub ix h)
  · intro ix hocc hno
    by_cases hax : ix ∈ axL ++ axR
    · exact hc ix hax hno
    · rw [List.mem_append, not_or] at hax
      rw [cntP]
      rcases (occP ix).1 hocc with h | h
      · have h1 := invL.closed ix h hax.1
        have h2 := mL_R ix ((Net.mem_missing n rm L axL ix).2 ⟨h, hax.1⟩)
        omega
      · have h1 := invR.closed ix h hax.2
        have h2 := mR_L ix ((Net.mem_missing n rm Rr axR ix).2 ⟨h, hax.2⟩)
        omega
  · intro σ
    rw [hval σ]
    have h1 : ∀ τ, a.val (axL.map τ) * b.val (axR.map τ) =
        sumOver n.size (n.missing rm L axL) τ (n.prodS rm A L) *
          sumOver n.size (n.missing rm Rr axR) τ (n.prodS rm A Rr) := by
      intro τ
      rw [invL.val τ, invR.val τ]
    rw [sumOver_congr n.size B.K σ h1,
      ← sumOver_fubini n.size B.K _ _ σ (n.prodS rm A L) (n.prodS rm A Rr)
        (fun k hk => indep_prodS n rm A L k (mR_L k hk))
        (fun k hk => indep_prodS n rm A Rr k (mL_R k hk)) hdisj_m,
      sumOver_perm n.size hperm hnd]
    apply sumOver_congr
    intro τ
    rw [prodS_perm n rm A hP, prodS_append]

end
end Cotengra
