import CotengraVerif.Model.Processor
import CotengraVerif.Lemmas.PathLemmas

/-!
  The processor's bookkeeping *is* an SSA replay: whatever the optimizer chooses, the emitted
  `ssa_path` replays on `N` inputs without a missing id and leaves exactly the live nodes; and
  `optimize_remaining_by_size` ends with one node.
-/
namespace Cotengra
namespace Processor
open Path

def unitD (ids : List Nat) : List (Nat × Unit) := ids.map fun i => (i, ())

/-- the emitted path, replayed from scratch, reproduces the processor's live ids and counter -/
def Inv (N : Nat) (s : State) : Prop :=
  runSSA (fun _ => ()) (initSSA N fun _ => ()) s.path = some ⟨unitD s.nodes, s.ssa⟩ ∧
  1 ≤ s.nodes.length

theorem runSSA_append {α} (merge : List α → α) (s : SSAState α) (p1 p2 : Path) :
    runSSA merge s (p1 ++ p2) = (runSSA merge s p1).bind fun s' => runSSA merge s' p2 := by
  induction p1 generalizing s with
  | nil => simp [runSSA]
  | cons p rest ih =>
    simp only [List.cons_append, runSSA]
    cases stepSSA merge s p with
    | none => simp
    | some s' => simp [ih]

theorem popId_unit (ids : List Nat) (i : Nat) :
    popId (unitD ids) i = if ids.contains i then some ((), unitD (ids.erase i)) else none := by
  induction ids with
  | nil => simp [popId, unitD]
  | cons a t ih =>
    simp only [unitD, List.map_cons] at ih ⊢
    unfold popId
    by_cases h : a = i
    · subst h; simp
    · rw [if_neg h, ih]
      have h' : (a == i) = false := by simpa using h
      have hi : ¬ i = a := fun e => h e.symm
      by_cases hm : i ∈ t
      · simp [hm, hi, List.erase_cons, h']
      · simp [hm, hi]

theorem init_inv (N : Nat) (hN : 1 ≤ N) : Inv N (init N) := by
  refine ⟨?_, by simp [init]; exact hN⟩
  simp [init, runSSA, initSSA, unitD]

theorem length_erase_of_contains {l : List Nat} {i : Nat} (h : l.contains i = true) :
    (l.erase i).length = l.length - 1 := by
  have : i ∈ l := by simpa using h
  exact List.length_erase_of_mem this

/-- `contract_nodes(i, j)` appends a step that replays -/
theorem contract_inv {N : Nat} {s s' : State} {i j k : Nat} (hs : Inv N s)
    (h : contract s i j = some (s', k)) :
    Inv N s' ∧ s'.nodes.length + 1 = s.nodes.length ∧
      s'.nodes = (s.nodes.erase i).erase j ++ [k] ∧ s.nodes.contains i = true ∧
      (s.nodes.erase i).contains j = true := by
  unfold contract pop at h
  by_cases hi : s.nodes.contains i = true
  · rw [if_pos hi] at h
    simp only at h
    by_cases hj : (s.nodes.erase i).contains j = true
    · rw [if_pos hj] at h
      simp only [add, Option.some.injEq, Prod.mk.injEq] at h
      obtain ⟨rfl, rfl⟩ := h
      have hl1 := length_erase_of_contains hi
      have hl2 := length_erase_of_contains hj
      have hpos : 2 ≤ s.nodes.length := by
        have : j ∈ s.nodes.erase i := by simpa using hj
        have := List.length_pos_of_mem this
        omega
      refine ⟨⟨?_, by simp⟩, by simp; omega, rfl, hi, hj⟩
      simp only
      rw [runSSA_append, hs.1]
      simp only [Option.bind_some, runSSA, stepSSA, List.isEmpty_cons, Bool.false_eq_true, if_false,
        popIds, popId_unit, hi, hj, if_true]
      simp [unitD]
    · rw [if_neg hj] at h; cases h
  · rw [if_neg hi] at h; cases h

theorem single_inv {N : Nat} {s s' : State} {i : Nat} (hs : Inv N s) (h : single s i = some s') :
    Inv N s' := by
  unfold single pop at h
  by_cases hi : s.nodes.contains i = true
  · rw [if_pos hi] at h
    simp only [add, Option.some.injEq] at h
    subst h
    refine ⟨?_, by simp⟩
    simp only
    rw [runSSA_append, hs.1]
    simp only [Option.bind_some, runSSA, stepSSA, List.isEmpty_cons, Bool.false_eq_true, if_false,
      popIds, popId_unit, hi, if_true]
    simp [unitD]
  · rw [if_neg hi] at h; cases h

theorem chainFrom_inv {N : Nat} (ids : List Nat) : ∀ {s s' : State} {cur : Nat}, Inv N s →
    chainFrom s cur ids = some s' → Inv N s' := by
  induction ids with
  | nil => intro s s' cur hs h; simp [chainFrom] at h; subst h; exact hs
  | cons b rest ih =>
    intro s s' cur hs h
    unfold chainFrom at h
    cases hc : contract s cur b with
    | none => rw [hc] at h; cases h
    | some r =>
      obtain ⟨s1, k⟩ := r
      rw [hc] at h
      exact ih (contract_inv hs hc).1 h

theorem chain_inv {N : Nat} {s s' : State} (ids : List Nat) (hs : Inv N s)
    (h : chain s ids = some s') : Inv N s' := by
  cases ids with
  | nil => simp [chain] at h; subst h; exact hs
  | cons a rest => exact chainFrom_inv rest hs h

theorem greedyLoop_inv {N : Nat} (cands : List (Nat × Nat)) : ∀ {s : State}, Inv N s →
    Inv N (greedyLoop s cands) := by
  induction cands with
  | nil => intro s hs; exact hs
  | cons c rest ih =>
    intro s hs
    obtain ⟨i, j⟩ := c
    unfold greedyLoop
    split
    · cases hc : contract s i j with
      | none => simp only; exact ih hs
      | some r =>
        obtain ⟨s1, k⟩ := r
        simp only
        exact ih (contract_inv hs hc).1
    · exact ih hs

theorem step_inv {N : Nat} {s s' : State} (o : Op) (hs : Inv N s) (h : step s o = some s') :
    Inv N s' := by
  cases o with
  | contract i j =>
    simp only [step] at h
    cases hc : contract s i j with
    | none => rw [hc] at h; cases h
    | some r =>
      rw [hc] at h
      simp only [Option.map_some, Option.some.injEq] at h
      subst h
      exact (contract_inv hs hc).1
  | single i => exact single_inv hs h
  | chain ids => exact chain_inv ids hs h
  | hadamard ids => exact chain_inv _ hs h
  | greedy cands =>
    simp only [step, Option.some.injEq] at h
    subst h
    exact greedyLoop_inv cands hs

theorem run_inv {N : Nat} (ops : List Op) : ∀ {s s' : State}, Inv N s → run s ops = some s' →
    Inv N s' := by
  induction ops with
  | nil => intro s s' hs h; simp [run] at h; subst h; exact hs
  | cons o rest ih =>
    intro s s' hs h
    unfold run at h
    cases hc : step s o with
    | none => rw [hc] at h; cases h
    | some s1 =>
      rw [hc] at h
      exact ih (step_inv o hs hc) h

/-! ## `optimize_remaining_by_size` -/

theorem popMin_ne_nil {h : List (Nat × Nat)} (hne : h ≠ []) : ∃ x t, popMin h = some (x, t) := by
  cases h with
  | nil => exact absurd rfl hne
  | cons a rest =>
    unfold popMin
    cases popMin rest with
    | none => exact ⟨_, _, rfl⟩
    | some r =>
      obtain ⟨y, t'⟩ := r
      simp only
      split <;> exact ⟨_, _, rfl⟩

theorem popMin_perm {h t : List (Nat × Nat)} {x : Nat × Nat} (hp : popMin h = some (x, t)) :
    (x :: t).Perm h := by
  induction h generalizing x t with
  | nil => simp [popMin] at hp
  | cons a rest ih =>
    unfold popMin at hp
    cases hr : popMin rest with
    | none =>
      rw [hr] at hp
      simp only [Option.some.injEq, Prod.mk.injEq] at hp
      obtain ⟨rfl, rfl⟩ := hp
      cases rest with
      | nil => exact List.Perm.refl _
      | cons b r' =>
        exfalso
        obtain ⟨x, t, hx⟩ := popMin_ne_nil (h := b :: r') (by simp)
        rw [hx] at hr; cases hr
    | some r =>
      obtain ⟨y, t'⟩ := r
      rw [hr] at hp
      simp only at hp
      split at hp
      · simp only [Option.some.injEq, Prod.mk.injEq] at hp
        obtain ⟨rfl, rfl⟩ := hp
        exact List.Perm.refl _
      · simp only [Option.some.injEq, Prod.mk.injEq] at hp
        obtain ⟨rfl, rfl⟩ := hp
        exact (List.Perm.swap _ _ _).trans (List.Perm.cons a (ih hr))

theorem remainingLoop_spec {N : Nat} (sz : Nat → Nat) (fuel : Nat) : ∀ (s : State)
    (heap : List (Nat × Nat)), Inv N s → (heap.map (·.2)).Perm s.nodes → heap.length ≤ fuel + 1 →
    ∃ s', remainingLoop sz fuel s heap = some s' ∧ Inv N s' ∧ s'.nodes.length = 1 := by
  induction fuel with
  | zero =>
    intro s heap hs hp hl
    have h1 : heap.length ≤ 1 := by omega
    refine ⟨s, by simp [remainingLoop, h1], hs, ?_⟩
    have := hp.length_eq
    rw [List.length_map] at this
    have := hs.2
    omega
  | succ fuel ih =>
    intro s heap hs hp hl
    unfold remainingLoop
    by_cases h1 : heap.length ≤ 1
    · rw [if_pos h1]
      refine ⟨s, rfl, hs, ?_⟩
      have := hp.length_eq
      rw [List.length_map] at this
      have := hs.2
      omega
    · rw [if_neg h1]
      have hne : heap ≠ [] := by intro e; rw [e] at h1; simp at h1
      obtain ⟨x, t1, hx⟩ := popMin_ne_nil hne
      have hp1 := popMin_perm hx
      have hl1 : t1.length + 1 = heap.length := by have := hp1.length_eq; simpa using this
      have hne1 : t1 ≠ [] := by intro e; rw [e] at hl1; simp at hl1; omega
      obtain ⟨y, t2, hy⟩ := popMin_ne_nil hne1
      have hp2 := popMin_perm hy
      have hl2 : t2.length + 1 = t1.length := by have := hp2.length_eq; simpa using this
      rw [hx]
      simp only
      rw [hy]
      simp only
      -- both ids are live, the second after the first was popped
      have hnodes : (x.2 :: y.2 :: t2.map (·.2)).Perm s.nodes := by
        have e1 : (x :: y :: t2).Perm heap := (List.Perm.cons x hp2).trans hp1
        exact (e1.map (·.2)).trans hp
      have hxi : s.nodes.contains x.2 = true := by
        have : x.2 ∈ s.nodes := hnodes.subset List.mem_cons_self
        simpa using this
      have herase : (y.2 :: t2.map (·.2)).Perm (s.nodes.erase x.2) := by
        have := hnodes.erase x.2
        simpa using this
      have hyj : (s.nodes.erase x.2).contains y.2 = true := by
        have : y.2 ∈ s.nodes.erase x.2 := herase.subset List.mem_cons_self
        simpa using this
      have hc : ∃ s1 k, contract s x.2 y.2 = some (s1, k) := by
        unfold contract pop
        rw [if_pos hxi]
        simp only
        rw [if_pos hyj]
        exact ⟨_, _, rfl⟩
      obtain ⟨s1, k, hc⟩ := hc
      rw [hc]
      simp only
      have hci := contract_inv hs hc
      apply ih s1 _ hci.1
      · rw [hci.2.2.1]
        simp only [List.map_cons]
        have h3 : (t2.map (·.2)).Perm ((s.nodes.erase x.2).erase y.2) := by
          have := herase.erase y.2
          simpa using this
        exact (List.Perm.cons k h3).trans (List.perm_append_singleton k _).symm
      · simp only [List.length_cons]; omega

end Processor
end Cotengra
