import CotengraVerif.Model.Gather

/-!
  Lemmas about gathering from an executor pool (`Model/Gather.lean`):

  * `gatherSub_complete` — looking the futures up in submission order returns the results in
    submission order, whatever the completion order;
  * `forestRun_submission_deterministic` — hence every restart round, and the whole forest
    run, is the same for any two sequences of completion orders;
  * `stableSort_perm_of_injective` — the completion-order gather is still harmless when no two
    results have the same sort key (the sorted list is then unique);
  * a tie is what makes it harmful: `Props/C17.lean` `completion_order_tie_counterexample`.
-/
namespace Cotengra.Gather

variable {α : Type}

theorem filterMap_getElem?_range (xs : List α) :
    (List.range xs.length).filterMap (fun i => xs[i]?) = xs := by
  induction xs with
  | nil => rfl
  | cons x xs ih =>
    simp only [List.length_cons, List.range_succ_eq_map, List.filterMap_cons, List.filterMap_map]
    simp only [List.getElem?_cons_zero]
    congr 1

theorem filterMap_congr' {β γ : Type} {f g : β → Option γ} :
    ∀ {l : List β}, (∀ x ∈ l, f x = g x) → l.filterMap f = l.filterMap g
  | [], _ => rfl
  | x :: l, h => by
    have hx := h x List.mem_cons_self
    have hl := filterMap_congr' (l := l) fun y hy => h y (List.mem_cons_of_mem x hy)
    simp only [List.filterMap_cons, hx, hl]

theorem lookup_complete (xs : List α) (π : List Nat) (i : Nat) (hi : i < xs.length) (hm : i ∈ π) :
    (complete xs π).lookup i = xs[i]? := by
  induction π with
  | nil => simp at hm
  | cons j π ih =>
    unfold complete
    simp only [List.filterMap_cons]
    by_cases hji : j = i
    · subst hji
      have : xs[j]? = some xs[j] := List.getElem?_eq_getElem hi
      simp [this]
    · have hm' : i ∈ π := by
        simp only [List.mem_cons] at hm
        rcases hm with h | h
        · exact absurd h.symm hji
        · exact h
      have ih' := ih hm'
      unfold complete at ih'
      cases hx : xs[j]? with
      | none => simpa using ih'
      | some x =>
        have hne : (i == j) = false := by simp [Ne.symm hji]
        simp only [Option.map_some, List.lookup_cons, hne]
        exact ih'

/-- **Submission-order gather ignores the completion order.** -/
theorem gatherSub_complete (xs : List α) (π : List Nat) (hπ : ValidOrder xs.length π) :
    gatherSub xs.length (complete xs π) = xs := by
  unfold gatherSub
  have : ∀ i ∈ List.range xs.length, (complete xs π).lookup i = xs[i]? := by
    intro i hi
    have hi' := List.mem_range.1 hi
    exact lookup_complete xs π i hi' (hπ i hi')
  rw [filterMap_congr' this]
  exact filterMap_getElem?_range xs

theorem gather_submission (xs : List α) (π : List Nat) (hπ : ValidOrder xs.length π) :
    gather .submission xs π = xs := gatherSub_complete xs π hπ

/-- one round does not depend on the order in which the pool's workers finished -/
theorem forestRound_submission_deterministic (reconf : α → Nat → α) (score : α → Nat)
    (keep numTrees : Nat) (forest : List α) (seeds π₁ π₂ : List Nat)
    (h₁ : ValidOrder ((cycleTake (forest.take keep) numTrees).zip seeds).length π₁)
    (h₂ : ValidOrder ((cycleTake (forest.take keep) numTrees).zip seeds).length π₂) :
    forestRound .submission reconf score keep numTrees forest seeds π₁ =
    forestRound .submission reconf score keep numTrees forest seeds π₂ := by
  unfold forestRound
  simp only
  rw [gather_submission _ π₁ (by simpa using h₁), gather_submission _ π₂ (by simpa using h₂)]

/-- the completion orders of all rounds are valid for the forests that the run itself produces
    (the number of saplings of a round depends on the forest of the round before) -/
def ValidRun (reconf : α → Nat → α) (score : α → Nat) (keep numTrees : Nat) :
    List α → List (List Nat × List Nat) → Prop
  | _, [] => True
  | forest, (seeds, π) :: rest =>
      ValidOrder ((cycleTake (forest.take keep) numTrees).zip seeds).length π ∧
      ValidRun reconf score keep numTrees
        (forestRound .submission reconf score keep numTrees forest seeds π) rest

/-- **The forest run with the submission-order gather is a function of its arguments**: two runs
    with the same sub-seeds (drawn from the seeded generator) and arbitrary valid completion
    orders in every round end with the same forest. -/
theorem forestRun_submission_deterministic (reconf : α → Nat → α) (score : α → Nat)
    (keep numTrees : Nat) :
    ∀ (forest : List α) (r₁ r₂ : List (List Nat × List Nat)),
      r₁.map (·.1) = r₂.map (·.1) →
      ValidRun reconf score keep numTrees forest r₁ → ValidRun reconf score keep numTrees forest r₂ →
      forestRun .submission reconf score keep numTrees forest r₁ =
      forestRun .submission reconf score keep numTrees forest r₂ := by
  intro forest r₁
  induction r₁ generalizing forest with
  | nil =>
    intro r₂ hs _ _
    cases r₂ with
    | nil => rfl
    | cons _ _ => simp at hs
  | cons a r₁ ih =>
    intro r₂ hs h₁ h₂
    cases r₂ with
    | nil => simp at hs
    | cons b r₂ =>
      obtain ⟨s₁, π₁⟩ := a
      obtain ⟨s₂, π₂⟩ := b
      simp only [List.map_cons, List.cons.injEq] at hs
      obtain ⟨hs1, hs2⟩ := hs
      subst hs1
      obtain ⟨hv₁, hr₁⟩ := h₁
      obtain ⟨hv₂, hr₂⟩ := h₂
      have hround := forestRound_submission_deterministic reconf score keep numTrees forest s₁ π₁ π₂ hv₁ hv₂
      simp only [forestRun]
      rw [hround] at hr₁ ⊢
      exact ih _ r₂ hs2 hr₁ hr₂

/-! ### the sort -/

theorem insertByKey_perm (key : α → Nat) (x : α) (l : List α) : (insertByKey key x l).Perm (x :: l) := by
  induction l with
  | nil => exact List.Perm.refl _
  | cons y ys ih =>
    unfold insertByKey
    split
    · exact List.Perm.refl _
    · exact ((List.Perm.cons y ih).trans (List.Perm.swap x y ys))

theorem stableSort_perm (key : α → Nat) (l : List α) : (stableSort key l).Perm l := by
  induction l with
  | nil => exact List.Perm.refl _
  | cons x xs ih => exact (insertByKey_perm key x _).trans (List.Perm.cons x ih)

theorem insertByKey_sorted (key : α → Nat) (x : α) (l : List α)
    (h : l.Pairwise fun a b => key a ≤ key b) :
    (insertByKey key x l).Pairwise fun a b => key a ≤ key b := by
  induction l with
  | nil => simp [insertByKey]
  | cons y ys ih =>
    unfold insertByKey
    split
    · rename_i hxy
      refine List.Pairwise.cons ?_ h
      intro b hb
      simp only [List.mem_cons] at hb
      rcases hb with rfl | hb
      · exact hxy
      · exact Nat.le_trans hxy (List.rel_of_pairwise_cons h hb)
    · rename_i hxy
      refine List.Pairwise.cons ?_ (ih h.tail)
      intro b hb
      have := (insertByKey_perm key x ys).subset hb
      simp only [List.mem_cons] at this
      rcases this with rfl | hb
      · omega
      · exact List.rel_of_pairwise_cons h hb

theorem stableSort_sorted (key : α → Nat) (l : List α) :
    (stableSort key l).Pairwise fun a b => key a ≤ key b := by
  induction l with
  | nil => exact List.Pairwise.nil
  | cons x xs ih => exact insertByKey_sorted key x _ ih

/-- with pairwise distinct keys the sorted list does not depend on the order of its input -/
theorem stableSort_perm_of_injective (key : α → Nat) (l₁ l₂ : List α) (hp : l₁.Perm l₂)
    (hinj : ∀ a b, a ∈ l₁ → b ∈ l₁ → key a = key b → a = b) :
    stableSort key l₁ = stableSort key l₂ := by
  apply List.Perm.eq_of_pairwise (le := fun a b => key a ≤ key b)
  · intro a b ha hb hab hba
    have ha' := (stableSort_perm key l₁).subset ha
    have hb' := hp.symm.subset ((stableSort_perm key l₂).subset hb)
    exact hinj a b ha' hb' (Nat.le_antisymm hab hba)
  · exact stableSort_sorted key l₁
  · exact stableSort_sorted key l₂
  · exact (stableSort_perm key l₁).trans (hp.trans (stableSort_perm key l₂).symm)

theorem gatherCompl_complete_perm (xs : List α) (π : List Nat) (hπ : π.Perm (List.range xs.length)) :
    (gatherCompl (complete xs π)).Perm xs := by
  unfold gatherCompl complete
  rw [List.map_filterMap]
  have : (fun i : Nat => Option.map (fun p : Nat × α => p.2) (xs[i]?.map fun x => (i, x))) = fun i => xs[i]? := by
    funext i; cases xs[i]? <;> rfl
  have h2 : List.filterMap (fun i => Option.map (fun p : Nat × α => p.2) (xs[i]?.map fun x => (i, x))) π
      = π.filterMap (fun i => xs[i]?) := by rw [this]
  rw [h2]
  have := List.Perm.filterMap (fun i => xs[i]?) hπ
  rw [filterMap_getElem?_range] at this
  exact this

/-- **Harmless case of a completion-order gather**: when no two results have the same score the
    sorted forest is the same for every completion order (so a rewrite that gathers with
    `as_completed` but sorts by a key with a tie-break on the submission index is deterministic) -/
theorem completion_gather_distinct_scores (xs : List α) (score : α → Nat) (π₁ π₂ : List Nat)
    (h₁ : π₁.Perm (List.range xs.length)) (h₂ : π₂.Perm (List.range xs.length))
    (hinj : ∀ a b, a ∈ xs → b ∈ xs → score a = score b → a = b) :
    stableSort score (gather .completion xs π₁) = stableSort score (gather .completion xs π₂) := by
  unfold gather
  have p1 := gatherCompl_complete_perm xs π₁ h₁
  have p2 := gatherCompl_complete_perm xs π₂ h₂
  apply stableSort_perm_of_injective score _ _ (p1.trans p2.symm)
  intro a b ha hb
  exact hinj a b (p1.subset ha) (p1.subset hb)

end Cotengra.Gather
