import CotengraVerif.Model.DP
import CotengraVerif.Lemmas.Cost

/-!
  List-level lemmas for the DP model: the sorted merge (`mergeLegs`), the leaf legs (`sortLegs`,
  `initLegs`) and the six step-cost scans (`conCost`).
-/
namespace Cotengra
namespace DP
open Legs

/-- `omega` does not look through the abbreviation `Ix := Nat` -/
macro "ixomega" : tactic => `(tactic| ((try unfold Ix at *); omega))

/-! ## `mergeLegs` -/

theorem mergeLegs_nil_left (b : Legs) : mergeLegs [] b = (b, false) := rfl

theorem mergeLegs_nil_right (a : Legs) : mergeLegs a [] = (a, false) := by
  cases a <;> rfl

theorem mergeLegs_cons_cons (x : Nat × Nat) (a : Legs) (y : Nat × Nat) (b : Legs) :
    mergeLegs (x :: a) (y :: b) =
      if x.1 < y.1 then (x :: (mergeLegs a (y :: b)).1, (mergeLegs a (y :: b)).2)
      else if y.1 < x.1 then (y :: (mergeLegs (x :: a) b).1, (mergeLegs (x :: a) b).2)
      else ((x.1, x.2 + y.2) :: (mergeLegs a b).1, true) := rfl

theorem merge_induct {P : Legs → Legs → Prop}
    (h1 : ∀ b, P [] b) (h2 : ∀ (x : Nat × Nat) (a : Legs), P (x :: a) [])
    (h3 : ∀ (x : Nat × Nat) (a : Legs) (y : Nat × Nat) (b : Legs), x.1 < y.1 → P a (y :: b) → P (x :: a) (y :: b))
    (h4 : ∀ (x : Nat × Nat) (a : Legs) (y : Nat × Nat) (b : Legs), ¬ x.1 < y.1 → y.1 < x.1 → P (x :: a) b → P (x :: a) (y :: b))
    (h5 : ∀ (x : Nat × Nat) (a : Legs) (y : Nat × Nat) (b : Legs), ¬ x.1 < y.1 → ¬ y.1 < x.1 → P a b → P (x :: a) (y :: b)) :
    ∀ a b, P a b := by
  intro a
  induction a with
  | nil => exact h1
  | cons x a iha =>
    intro b
    induction b with
    | nil => exact h2 x a
    | cons y b ihb =>
      by_cases hxy : x.1 < y.1
      · exact h3 x a y b hxy (iha _)
      · by_cases hyx : y.1 < x.1
        · exact h4 x a y b hxy hyx ihb
        · exact h5 x a y b hxy hyx (iha _)

theorem total_cons (kv : Nat × Nat) (t : Legs) (ix : Nat) :
    total (kv :: t) ix = (if kv.1 = ix then kv.2 else 0) + total t ix := by
  simp [total]

theorem total_merge (a b : Legs) (ix : Nat) :
    total (mergeLegs a b).1 ix = total a ix + total b ix := by
  revert ix
  refine merge_induct (P := fun a b => ∀ ix, total (mergeLegs a b).1 ix = total a ix + total b ix)
    ?_ ?_ ?_ ?_ ?_ a b
  · intro b ix; simp [mergeLegs_nil_left, total]
  · intro x a ix; simp [mergeLegs_nil_right, total]
  · intro x a y b hxy ih ix
    rw [mergeLegs_cons_cons, if_pos hxy]
    simp only [total_cons] at ih ⊢
    rw [ih]; ixomega
  · intro x a y b hxy hyx ih ix
    rw [mergeLegs_cons_cons, if_neg hxy, if_pos hyx]
    simp only [total_cons] at ih ⊢
    rw [ih]; ixomega
  · intro x a y b hxy hyx ih ix
    rw [mergeLegs_cons_cons, if_neg hxy, if_neg hyx]
    have hxy' : y.1 = x.1 := by ixomega
    simp only [total_cons, hxy'] at ih ⊢
    rw [ih]
    split <;> ixomega

theorem keys_cons (kv : Nat × Nat) (t : Legs) : keys (kv :: t) = kv.1 :: keys t := rfl

theorem mem_keys_merge (a b : Legs) (ix : Nat) :
    ix ∈ keys (mergeLegs a b).1 ↔ ix ∈ keys a ∨ ix ∈ keys b := by
  revert ix
  refine merge_induct
    (P := fun a b => ∀ ix, ix ∈ keys (mergeLegs a b).1 ↔ ix ∈ keys a ∨ ix ∈ keys b)
    ?_ ?_ ?_ ?_ ?_ a b
  · intro b ix; simp [mergeLegs_nil_left, keys]
  · intro x a ix; simp [mergeLegs_nil_right, keys]
  · intro x a y b hxy ih ix
    rw [mergeLegs_cons_cons, if_pos hxy]
    simp only [keys_cons, List.mem_cons] at ih ⊢
    rw [ih]; tauto
  · intro x a y b hxy hyx ih ix
    rw [mergeLegs_cons_cons, if_neg hxy, if_pos hyx]
    simp only [keys_cons, List.mem_cons] at ih ⊢
    rw [ih]; tauto
  · intro x a y b hxy hyx ih ix
    rw [mergeLegs_cons_cons, if_neg hxy, if_neg hyx]
    have hxy' : y.1 = x.1 := by ixomega
    simp only [keys_cons, List.mem_cons, hxy'] at ih ⊢
    rw [ih]; tauto

/-- strictly increasing keys -/
def Sorted (L : Legs) : Prop := (keys L).Pairwise (· < ·)

theorem Sorted.nodup {L : Legs} (h : Sorted L) : (keys L).Nodup :=
  List.Pairwise.imp (fun hab => Nat.ne_of_lt hab) h

theorem sorted_cons {kv : Ix × Nat} {t : Legs} :
    Sorted (kv :: t) ↔ (∀ k ∈ keys t, kv.1 < k) ∧ Sorted t := by
  unfold Sorted; rw [keys_cons, List.pairwise_cons]

theorem sorted_merge (a b : Legs) (ha : Sorted a) (hb : Sorted b) : Sorted (mergeLegs a b).1 := by
  revert ha hb
  refine merge_induct (P := fun a b => Sorted a → Sorted b → Sorted (mergeLegs a b).1)
    ?_ ?_ ?_ ?_ ?_ a b
  · intro b _ hb; simpa [mergeLegs_nil_left] using hb
  · intro x a ha _; simpa [mergeLegs_nil_right] using ha
  · intro x a y b hxy ih ha hb
    rw [mergeLegs_cons_cons, if_pos hxy]
    have hxa := sorted_cons.1 ha
    have hyb := sorted_cons.1 hb
    refine sorted_cons.2 ⟨?_, ih hxa.2 hb⟩
    intro k hk
    rcases (mem_keys_merge a (y :: b) k).1 hk with h | h
    · exact hxa.1 k h
    · rw [keys_cons, List.mem_cons] at h
      rcases h with h | h
      · ixomega
      · have := hyb.1 k h; ixomega
  · intro x a y b hxy hyx ih ha hb
    rw [mergeLegs_cons_cons, if_neg hxy, if_pos hyx]
    have hxa := sorted_cons.1 ha
    have hyb := sorted_cons.1 hb
    refine sorted_cons.2 ⟨?_, ih ha hyb.2⟩
    intro k hk
    rcases (mem_keys_merge (x :: a) b k).1 hk with h | h
    · rw [keys_cons, List.mem_cons] at h
      rcases h with h | h
      · ixomega
      · have := hxa.1 k h; ixomega
    · exact hyb.1 k h
  · intro x a y b hxy hyx ih ha hb
    rw [mergeLegs_cons_cons, if_neg hxy, if_neg hyx]
    have hxa := sorted_cons.1 ha
    have hyb := sorted_cons.1 hb
    refine sorted_cons.2 ⟨?_, ih hxa.2 hyb.2⟩
    intro k hk
    show x.1 < k
    rcases (mem_keys_merge a b k).1 hk with h | h
    · exact hxa.1 k h
    · have := hyb.1 k h; ixomega

theorem pos_cons {kv : Ix × Nat} {t : Legs} : Pos (kv :: t) ↔ 0 < kv.2 ∧ Pos t := by
  unfold Pos
  constructor
  · intro h
    exact ⟨h kv List.mem_cons_self, fun x hx => h x (List.mem_cons_of_mem _ hx)⟩
  · rintro ⟨h1, h2⟩ x hx
    rcases List.mem_cons.1 hx with e | e
    · subst e; exact h1
    · exact h2 x e

theorem pos_merge (a b : Legs) (ha : Pos a) (hb : Pos b) : Pos (mergeLegs a b).1 := by
  revert ha hb
  refine merge_induct (P := fun a b => Pos a → Pos b → Pos (mergeLegs a b).1) ?_ ?_ ?_ ?_ ?_ a b
  · intro b _ hb; simpa [mergeLegs_nil_left] using hb
  · intro x a ha _; simpa [mergeLegs_nil_right] using ha
  · intro x a y b hxy ih ha hb
    rw [mergeLegs_cons_cons, if_pos hxy]
    exact pos_cons.2 ⟨(pos_cons.1 ha).1, ih (pos_cons.1 ha).2 hb⟩
  · intro x a y b hxy hyx ih ha hb
    rw [mergeLegs_cons_cons, if_neg hxy, if_pos hyx]
    exact pos_cons.2 ⟨(pos_cons.1 hb).1, ih ha (pos_cons.1 hb).2⟩
  · intro x a y b hxy hyx ih ha hb
    rw [mergeLegs_cons_cons, if_neg hxy, if_neg hyx]
    refine pos_cons.2 ⟨?_, ih (pos_cons.1 ha).2 (pos_cons.1 hb).2⟩
    have := (pos_cons.1 ha).1
    show 0 < x.2 + y.2
    ixomega

/-- the flag says exactly whether the two (sorted) legs share an index -/
theorem shared_merge (a b : Legs) (ha : Sorted a) (hb : Sorted b) :
    (mergeLegs a b).2 = true ↔ ∃ ix, ix ∈ keys a ∧ ix ∈ keys b := by
  revert ha hb
  refine merge_induct
    (P := fun a b => Sorted a → Sorted b →
      ((mergeLegs a b).2 = true ↔ ∃ ix, ix ∈ keys a ∧ ix ∈ keys b)) ?_ ?_ ?_ ?_ ?_ a b
  · intro b _ _; simp [mergeLegs_nil_left, keys]
  · intro x a _ _; simp [mergeLegs_nil_right, keys]
  · intro x a y b hxy ih ha hb
    rw [mergeLegs_cons_cons, if_pos hxy]
    have hxa := sorted_cons.1 ha
    have hyb := sorted_cons.1 hb
    show (mergeLegs a (y :: b)).2 = true ↔ _
    rw [ih hxa.2 hb]
    constructor
    · rintro ⟨ix, h1, h2⟩; exact ⟨ix, by rw [keys_cons]; exact List.mem_cons_of_mem _ h1, h2⟩
    · rintro ⟨ix, h1, h2⟩
      rw [keys_cons, List.mem_cons] at h1
      rcases h1 with h1 | h1
      · -- ix = x.1 < y.1 ≤ every key of y :: b
        exfalso
        rw [keys_cons, List.mem_cons] at h2
        rcases h2 with h2 | h2
        · ixomega
        · have := hyb.1 ix h2; ixomega
      · exact ⟨ix, h1, h2⟩
  · intro x a y b hxy hyx ih ha hb
    rw [mergeLegs_cons_cons, if_neg hxy, if_pos hyx]
    have hxa := sorted_cons.1 ha
    have hyb := sorted_cons.1 hb
    show (mergeLegs (x :: a) b).2 = true ↔ _
    rw [ih ha hyb.2]
    constructor
    · rintro ⟨ix, h1, h2⟩; exact ⟨ix, h1, by rw [keys_cons]; exact List.mem_cons_of_mem _ h2⟩
    · rintro ⟨ix, h1, h2⟩
      rw [keys_cons, List.mem_cons] at h2
      rcases h2 with h2 | h2
      · exfalso
        rw [keys_cons, List.mem_cons] at h1
        rcases h1 with h1 | h1
        · ixomega
        · have := hxa.1 ix h1; ixomega
      · exact ⟨ix, h1, h2⟩
  · intro x a y b hxy hyx _ _ _
    rw [mergeLegs_cons_cons, if_neg hxy, if_neg hyx]
    have hxy' : y.1 = x.1 := by ixomega
    simp only [true_iff]
    exact ⟨x.1, by simp [keys_cons], by simp [keys_cons, hxy']⟩

theorem get_merge (a b : Legs) (ha : Sorted a) (hb : Sorted b) (ix : Nat) :
    get (mergeLegs a b).1 ix = get a ix + get b ix := by
  rw [get_eq_total _ (sorted_merge a b ha hb).nodup, get_eq_total _ ha.nodup,
    get_eq_total _ hb.nodup, total_merge]

/-! ## the leaf legs -/

theorem insertLeg_perm (x : Nat × Nat) (L : Legs) : (insertLeg x L).Perm (x :: L) := by
  induction L with
  | nil => exact List.Perm.refl _
  | cons y t ih =>
    unfold insertLeg
    split
    · exact (List.Perm.cons y ih).trans (List.Perm.swap x y t)
    · exact List.Perm.refl _

theorem sortLegs_perm (L : Legs) : (sortLegs L).Perm L := by
  induction L with
  | nil => exact List.Perm.refl _
  | cons x t ih =>
    unfold sortLegs
    exact (insertLeg_perm x _).trans (List.Perm.cons x ih)

/-- weakly increasing keys -/
def WSorted (L : Legs) : Prop := (keys L).Pairwise (· ≤ ·)

theorem legLt_false_le {x y : Ix × Nat} (h : legLt y x = false) : x.1 ≤ y.1 := by
  unfold legLt at h
  simp only [Bool.or_eq_false_iff, decide_eq_false_iff_not] at h
  ixomega

theorem legLt_true_le {x y : Ix × Nat} (h : legLt y x = true) : y.1 ≤ x.1 := by
  unfold legLt at h
  simp only [Bool.or_eq_true, decide_eq_true_eq, Bool.and_eq_true, beq_iff_eq] at h
  ixomega

theorem wsorted_insertLeg (x : Nat × Nat) (L : Legs) (h : WSorted L) : WSorted (insertLeg x L) := by
  induction L with
  | nil => simp [insertLeg, WSorted, keys]
  | cons y t ih =>
    unfold WSorted at h ih ⊢
    rw [keys_cons, List.pairwise_cons] at h
    unfold insertLeg
    by_cases hl : legLt y x = true
    · rw [if_pos hl, keys_cons, List.pairwise_cons]
      refine ⟨?_, ih h.2⟩
      intro k hk
      have hk' : k ∈ keys (x :: t) := by
        unfold keys at hk ⊢
        exact ((insertLeg_perm x t).map _).subset hk
      rw [keys_cons, List.mem_cons] at hk'
      rcases hk' with e | e
      · subst e; exact legLt_true_le hl
      · exact h.1 k e
    · have hl' : legLt y x = false := by simpa using hl
      rw [if_neg hl, keys_cons, List.pairwise_cons, keys_cons, List.pairwise_cons]
      have hxy := legLt_false_le hl'
      refine ⟨?_, h⟩
      intro k hk
      rcases List.mem_cons.1 hk with e | e
      · subst e; exact hxy
      · exact Nat.le_trans hxy (h.1 k e)

theorem wsorted_sortLegs (L : Legs) : WSorted (sortLegs L) := by
  induction L with
  | nil => simp [sortLegs, WSorted, keys]
  | cons x t ih => unfold sortLegs; exact wsorted_insertLeg x _ ih

theorem sorted_of_wsorted_nodup {L : Legs} (h : WSorted L) (hn : (keys L).Nodup) : Sorted L := by
  unfold Sorted WSorted at *
  generalize keys L = ks at *
  induction ks with
  | nil => exact List.Pairwise.nil
  | cons k t ih =>
    rw [List.pairwise_cons] at h ⊢
    rw [List.nodup_cons] at hn
    refine ⟨?_, ih h.2 hn.2⟩
    intro a ha
    have := h.1 a ha
    have hne : k ≠ a := fun e => hn.1 (e ▸ ha)
    ixomega

theorem total_perm {a b : Legs} (h : a.Perm b) (ix : Nat) : total a ix = total b ix := by
  unfold total
  exact (h.map _).sum_eq

theorem total_unit (term : List Ix) (ix : Nat) :
    total (term.map fun jx => (jx, 1)) ix = term.count ix := by
  induction term with
  | nil => simp [total]
  | cons x t ih =>
    rw [List.map_cons, total_cons, ih, List.count_cons]
    by_cases h : x = ix <;> simp [h] <;> ixomega

theorem keys_initLegs_perm (g : Net) (i : Nat) : (keys (initLegs g i)).Perm (g.term i) := by
  unfold initLegs keys
  refine ((sortLegs_perm _).map _).trans ?_
  rw [List.map_map]
  have : (Prod.fst ∘ fun ix : Ix => (ix, 1)) = id := by funext x; rfl
  rw [this, List.map_id]

theorem sorted_initLegs (g : Net) (i : Nat) (h : (g.term i).Nodup) : Sorted (initLegs g i) :=
  sorted_of_wsorted_nodup (wsorted_sortLegs _) ((keys_initLegs_perm g i).nodup_iff.2 h)

theorem pos_initLegs (g : Net) (i : Nat) : Pos (initLegs g i) := by
  intro kv hkv
  have := (sortLegs_perm _).subset hkv
  obtain ⟨ix, _, rfl⟩ := List.mem_map.1 this
  exact Nat.one_pos

theorem get_initLegs (g : Net) (i : Nat) (h : (g.term i).Nodup) (ix : Nat) :
    get (initLegs g i) ix = (g.term i).count ix := by
  rw [get_eq_total _ (sorted_initLegs g i h).nodup]
  unfold initLegs
  rw [total_perm (sortLegs_perm _), total_unit]

/-! ## the step-cost scans -/

/-- the legs left by every `compute_con_cost_*`: contracted indices deleted -/
def kept (g : Net) (temp : Legs) : Legs := temp.filter fun kv => kv.2 != g.app kv.1

/-- product of the dimensions of the indices of a legs list -/
def prodKeys (g : Net) (L : Legs) : Nat := ((keys L).map g.size).prod

theorem prodKeys_cons (g : Net) (kv : Nat × Nat) (t : Legs) :
    prodKeys g (kv :: t) = g.size kv.1 * prodKeys g t := by
  simp [prodKeys, keys]

theorem kept_cons (g : Net) (kv : Nat × Nat) (t : Legs) :
    kept g (kv :: t) = if kv.2 = g.app kv.1 then kept g t else kv :: kept g t := by
  unfold kept
  by_cases h : kv.2 = g.app kv.1 <;> simp [List.filter_cons, h]

theorem scanAll_eq (g : Net) (temp : Legs) :
    temp.foldr (fun kv (acc : Legs × Nat) =>
      let cost := acc.2 * g.size kv.1
      if kv.2 = g.app kv.1 then (acc.1, cost) else (kv :: acc.1, cost)) ([], 1)
      = (kept g temp, prodKeys g temp) := by
  induction temp with
  | nil => simp [kept, prodKeys, keys]
  | cons kv t ih =>
    rw [List.foldr_cons, ih, kept_cons, prodKeys_cons]
    by_cases h : kv.2 = g.app kv.1 <;> simp [h, Nat.mul_comm]

theorem scanKept_eq (g : Net) (temp : Legs) :
    temp.foldr (fun kv (acc : Legs × Nat) =>
      if kv.2 = g.app kv.1 then (acc.1, acc.2) else (kv :: acc.1, acc.2 * g.size kv.1)) ([], 1)
      = (kept g temp, prodKeys g (kept g temp)) := by
  induction temp with
  | nil => simp [kept, prodKeys, keys]
  | cons kv t ih =>
    rw [List.foldr_cons, ih, kept_cons]
    by_cases h : kv.2 = g.app kv.1
    · simp [h]
    · simp [h, prodKeys_cons, Nat.mul_comm]

theorem scanBoth_eq (g : Net) (temp : Legs) :
    scanBoth g temp = (kept g temp, prodKeys g temp, prodKeys g (kept g temp)) := by
  unfold scanBoth
  induction temp with
  | nil => simp [kept, prodKeys, keys]
  | cons kv t ih =>
    rw [List.foldr_cons, ih, kept_cons]
    by_cases h : kv.2 = g.app kv.1
    · simp [h, prodKeys_cons, Nat.mul_comm]
    · simp [h, prodKeys_cons, Nat.mul_comm]

/-- all six step-cost functions: they delete exactly the contracted indices and return the
    objective's combination of (product over all merged indices, product over the kept ones) -/
theorem conCost_eq (g : Net) (obj : Objective) (temp : Legs) (a b : Nat) :
    conCost g obj temp a b =
      (kept g temp, combine obj a b (prodKeys g temp) (prodKeys g (kept g temp))) := by
  cases obj with
  | flops => simp only [conCost, conCostFlops, scanAll_eq, combine]
  | max => simp only [conCost, conCostMax, scanAll_eq, combine]
  | size => simp only [conCost, conCostSize, scanKept_eq, combine]
  | write => simp only [conCost, conCostWrite, scanKept_eq, combine]
  | combo p q => simp only [conCost, conCostCombo, scanBoth_eq, combine]
  | limit p q => simp only [conCost, conCostLimit, scanBoth_eq, combine]

theorem sorted_kept (g : Net) (L : Legs) (h : Sorted L) : Sorted (kept g L) := by
  unfold Sorted keys kept at *
  exact List.Pairwise.sublist (List.Sublist.map _ List.filter_sublist) h

theorem get_kept (g : Net) (L : Legs) (h : Sorted L) (ix : Nat) :
    get (kept g L) ix = if get L ix = g.app ix then 0 else get L ix := by
  unfold kept
  rw [get_filter _ _ h.nodup]
  by_cases e : get L ix = g.app ix <;> simp [e]

end DP
end Cotengra
