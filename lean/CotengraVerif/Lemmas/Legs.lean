import CotengraVerif.Model.Net
import Mathlib.Algebra.BigOperators.Group.Finset.Basic
import Mathlib.Algebra.Order.BigOperators.Group.Finset

/-!
  Helper lemmas about ordered legs dictionaries and the core lemma L1
  (`legs_get_eq_spec`): the recursively computed legs of a node depend only on the
  multiset of leaves beneath it.
-/
namespace Cotengra
namespace Legs

@[simp] theorem get_nil (ix : Ix) : get [] ix = 0 := rfl

theorem get_add (L : Legs) (ix c jx) :
    get (add L ix c) jx = get L jx + if ix = jx then c else 0 := by
  induction L with
  | nil => simp [add, get]
  | cons kv t ih =>
    obtain ⟨k, v⟩ := kv
    by_cases hk : k = ix
    · subst hk
      by_cases hj : k = jx <;> simp [add, get, hj]
    · by_cases hj : k = jx
      · subst hj
        simp [add, get, hk]
        intro h; exact absurd h.symm hk
      · simp [add, get, hk, hj, ih]

theorem keys_add (L : Legs) (ix c) :
    keys (add L ix c) = if ix ∈ keys L then keys L else keys L ++ [ix] := by
  induction L with
  | nil => simp [add, keys]
  | cons kv t ih =>
    obtain ⟨k, v⟩ := kv
    by_cases hk : k = ix
    · subst hk; simp [add, keys]
    · have hk' : ¬ ix = k := fun h => hk h.symm
      simp only [keys] at ih
      simp only [add, hk, keys, if_false, List.map_cons, List.mem_cons, hk', false_or, ih]
      split <;> simp [*]

theorem keys_nodup_add (L : Legs) (ix c) (h : (keys L).Nodup) : (keys (add L ix c)).Nodup := by
  rw [keys_add]
  split
  · exact h
  · rename_i hni
    exact List.nodup_append.2 ⟨h, by simp, by
      intro a ha b hb
      simp at hb; subst hb
      intro hab; subst hab; exact hni ha⟩

/-- sum of all values stored under `ix` (equals `get` when keys are distinct) -/
def total (L : Legs) (ix : Ix) : Nat :=
  (L.map (fun kv => if kv.1 = ix then kv.2 else 0)).sum

theorem get_eq_total (L : Legs) (h : (keys L).Nodup) (ix) : get L ix = total L ix := by
  induction L with
  | nil => simp [total]
  | cons kv t ih =>
    obtain ⟨k, v⟩ := kv
    simp only [keys, List.map_cons, List.nodup_cons] at h
    have iht := ih h.2
    by_cases hk : k = ix
    · subst hk
      have : total t k = 0 := by
        unfold total
        apply List.sum_eq_zero
        intro x hx
        simp only [List.mem_map] at hx
        obtain ⟨⟨k', v'⟩, hmem, rfl⟩ := hx
        by_cases hkk : k' = k
        · subst hkk
          exact absurd (List.mem_map.2 ⟨(k', v'), hmem, rfl⟩) h.1
        · simp [hkk]
      simp [get, total] at *
      omega
    · simp [get, total, hk] at *
      exact iht

theorem get_foldl_add (b a : Legs) (ix) :
    get (b.foldl (fun acc kv => add acc kv.1 kv.2) a) ix = get a ix + total b ix := by
  induction b generalizing a with
  | nil => simp [total]
  | cons kv t ih =>
    simp only [List.foldl_cons, ih, get_add, total, List.map_cons, List.sum_cons]
    omega

theorem get_union (a b : Legs) (hb : (keys b).Nodup) (ix) :
    get (union a b) ix = get a ix + get b ix := by
  unfold union
  rw [get_foldl_add, get_eq_total b hb]

theorem keys_nodup_foldl_add (b a : Legs) (h : (keys a).Nodup) :
    (keys (b.foldl (fun acc kv => add acc kv.1 kv.2) a)).Nodup := by
  induction b generalizing a with
  | nil => simpa
  | cons kv t ih => exact ih _ (keys_nodup_add a _ _ h)

theorem keys_nodup_union (a b : Legs) (h : (keys a).Nodup) : (keys (union a b)).Nodup :=
  keys_nodup_foldl_add b a h

theorem keys_nodup_filter (L : Legs) (p) (h : (keys L).Nodup) : (keys (L.filter p)).Nodup := by
  unfold keys at *
  exact List.Nodup.sublist (List.Sublist.map _ List.filter_sublist) h

theorem get_eq_zero_of_not_mem (L : Legs) (ix) (h : ix ∉ keys L) : get L ix = 0 := by
  induction L with
  | nil => rfl
  | cons kv t ih =>
    obtain ⟨k, v⟩ := kv
    simp only [keys, List.map_cons, List.mem_cons, not_or] at h
    have hk : ¬ k = ix := fun e => h.1 e.symm
    simp only [get, hk, if_false]
    exact ih h.2

theorem get_filter (L : Legs) (p : Ix × Nat → Bool) (h : (keys L).Nodup) (ix) :
    get (L.filter p) ix = if p (ix, get L ix) then get L ix else 0 := by
  induction L with
  | nil =>
    show (0 : Nat) = if p (ix, 0) = true then 0 else 0
    by_cases hp : p (ix, 0) = true
    · rw [if_pos hp]
    · rw [if_neg hp]
  | cons kv t ih =>
    obtain ⟨k, v⟩ := kv
    simp only [keys, List.map_cons, List.nodup_cons] at h
    have iht := ih h.2
    by_cases hk : k = ix
    · subst hk
      have hz : get (t.filter p) k = 0 := by
        apply get_eq_zero_of_not_mem
        intro hm
        apply h.1
        unfold keys at hm
        exact (List.Sublist.map _ List.filter_sublist).subset hm
      by_cases hp : p (k, v) = true
      · simp [hp, get]
      · simp [hp, get, hz]
    · by_cases hp : p (k, v) = true
      · simp [hp, get, hk]; exact iht
      · simp [hp, get, hk]; exact iht

theorem get_ofTerm_aux (term : List Ix) (a : Legs) (ix) :
    get (term.foldl (fun acc ix => add acc ix 1) a) ix = get a ix + term.count ix := by
  induction term generalizing a with
  | nil => simp
  | cons x t ih =>
    simp only [List.foldl_cons, ih, get_add, List.count_cons]
    by_cases hx : x = ix <;> simp [hx] <;> omega

theorem get_ofTerm (term : List Ix) (ix) : get (ofTerm term) ix = term.count ix := by
  unfold ofTerm; rw [get_ofTerm_aux]; simp

theorem keys_nodup_ofTerm_aux (term : List Ix) (a : Legs) (h : (keys a).Nodup) :
    (keys (term.foldl (fun acc ix => add acc ix 1) a)).Nodup := by
  induction term generalizing a with
  | nil => simpa
  | cons x t ih => exact ih _ (keys_nodup_add a _ _ h)

theorem keys_nodup_ofTerm (term : List Ix) : (keys (ofTerm term)).Nodup :=
  keys_nodup_ofTerm_aux term [] (by simp [keys])

/-- membership in the keys is positivity of the count whenever all stored counts are positive -/
theorem mem_keys_of_get_pos (L : Legs) (ix) (h : 0 < get L ix) : ix ∈ keys L := by
  by_contra hn
  rw [get_eq_zero_of_not_mem L ix hn] at h
  exact Nat.lt_irrefl 0 h

end Legs

namespace Net
open Legs

theorem keys_nodup_leafLegs (n : Net) (rm i) : (keys (n.leafLegs rm i)).Nodup := by
  unfold leafLegs leafLegsPre
  simp only
  split
  · exact keys_nodup_filter _ _ (keys_nodup_ofTerm _)
  · exact keys_nodup_ofTerm _

theorem keys_nodup_legs (n : Net) (rm) (t : BT) : (keys (n.legs rm t)).Nodup := by
  cases t with
  | leaf i => exact keys_nodup_leafLegs n rm i
  | node l r =>
    unfold legs keepOpen
    exact keys_nodup_filter _ _ (keys_nodup_union _ _ (keys_nodup_legs n rm l))

/-- leaf legs: the count of `ix` in the sliced term, unless the term holds *all* appearances. -/
theorem get_leafLegs (n : Net) (rm i ix) :
    get (n.leafLegs rm i) ix =
      if occ (n.termRm rm i) ix = n.app ix then 0 else occ (n.termRm rm i) ix := by
  unfold leafLegs leafLegsPre
  simp only
  split
  · rw [get_filter _ _ (keys_nodup_ofTerm _), get_ofTerm]
    by_cases hc : List.count ix (n.termRm rm i) = n.app ix <;> simp [occ, hc]
  · rename_i hs
    rw [get_ofTerm]
    simp only [Bool.or_eq_true, not_or, Bool.not_eq_true] at hs
    by_cases hz : List.count ix (n.termRm rm i) = 0
    · simp [occ, hz]
    · have hmem : ix ∈ keys (ofTerm (n.termRm rm i)) := by
        apply mem_keys_of_get_pos
        rw [get_ofTerm]; omega
      have hany := hs.2
      rw [List.any_eq_false] at hany
      unfold keys at hmem
      obtain ⟨⟨k, v⟩, hkv, hk⟩ := List.mem_map.1 hmem
      simp only at hk; subst hk
      have hv : v = get (ofTerm (n.termRm rm i)) k := by
        have hnd := keys_nodup_ofTerm (n.termRm rm i)
        clear hany hmem hz hs
        generalize ofTerm (n.termRm rm i) = L at *
        induction L with
        | nil => cases hkv
        | cons kv t ih =>
          obtain ⟨k', v'⟩ := kv
          simp only [keys, List.map_cons, List.nodup_cons] at hnd
          rcases List.mem_cons.1 hkv with h | h
          · cases h; simp [Legs.get]
          · have : k' ≠ k := by
              intro e; subst e
              exact hnd.1 (List.mem_map.2 ⟨(k', v), h, rfl⟩)
            simp [Legs.get, this]; exact ih h hnd.2
      have := hany (k, v) hkv
      rw [hv, get_ofTerm] at this
      have hne : ¬ List.count k (n.termRm rm i) = n.app k := by simpa using this
      simp [occ, hne]

/-- occurrences in a sliced term are bounded by occurrences in the term -/
theorem occ_termRm_le (n : Net) (rm i ix) : occ (n.termRm rm i) ix ≤ occ (n.term i) ix := by
  unfold termRm occ
  exact List.Sublist.count_le _ List.filter_sublist

theorem sum_map_nodup_le (f : Nat → Nat) (N : Nat) (ls : List Nat) (hd : ls.Nodup)
    (hb : ∀ i ∈ ls, i < N) : (ls.map f).sum ≤ ((List.range N).map f).sum := by
  have h1 : (ls.map f).sum = ∑ i ∈ ls.toFinset, f i := by
    rw [List.sum_toFinset f hd]
  have h2 : ((List.range N).map f).sum = ∑ i ∈ Finset.range N, f i := by
    rw [← List.sum_toFinset f (List.nodup_range)]
    congr 1
    ext i; simp
  rw [h1, h2]
  apply Finset.sum_le_sum_of_subset
  intro i hi
  simp only [List.mem_toFinset] at hi
  exact Finset.mem_range.2 (hb i hi)

theorem appIn_eq_range (n : Net) (ix) :
    n.appIn ix = ((List.range n.inputs.length).map (fun i => occ (n.term i) ix)).sum := by
  unfold appIn term
  congr 1
  apply List.ext_getElem
  · simp
  · intro i h1 h2
    simp at h1
    simp [List.getD_eq_getElem?_getD, h1]

/-- the leaves under a node hold at most all input appearances -/
theorem cnt_le_appIn (n : Net) (rm) (t : BT) (hd : t.leaves.Nodup)
    (hb : ∀ i ∈ t.leaves, i < n.inputs.length) (ix) : n.cnt rm t ix ≤ n.appIn ix := by
  unfold cnt
  calc (t.leaves.map fun i => occ (n.termRm rm i) ix).sum
      ≤ (t.leaves.map fun i => occ (n.term i) ix).sum := by
        apply List.sum_le_sum
        intro i _
        exact occ_termRm_le n rm i ix
    _ ≤ ((List.range n.inputs.length).map fun i => occ (n.term i) ix).sum :=
        sum_map_nodup_le _ _ _ hd hb
    _ = n.appIn ix := (appIn_eq_range n ix).symm

theorem cnt_node (n : Net) (rm l r ix) :
    n.cnt rm (.node l r) ix = n.cnt rm l ix + n.cnt rm r ix := by
  simp [cnt, BT.leaves]

/-- **L1**. The legs the code computes recursively from the children equal the leaf-set
    characterisation: `ix ↦ cnt` exactly for the indices whose appearances under the node
    are fewer than their global appearances (inputs + output). -/
theorem legs_get_eq_spec (n : Net) (rm : List Ix) (t : BT) (hd : t.leaves.Nodup)
    (hb : ∀ i ∈ t.leaves, i < n.inputs.length) (ix : Ix) :
    Legs.get (n.legs rm t) ix = if n.cnt rm t ix < n.app ix then n.cnt rm t ix else 0 := by
  induction t with
  | leaf i =>
    have hle := cnt_le_appIn n rm (.leaf i) hd hb ix
    simp only [legs, get_leafLegs]
    simp only [cnt, BT.leaves, List.map_cons, List.map_nil, List.sum_cons, List.sum_nil,
      Nat.add_zero] at hle ⊢
    unfold app
    split <;> split <;> omega
  | node l r ihl ihr =>
    have hdl : l.leaves.Nodup := (List.nodup_append.1 hd).1
    have hdr : r.leaves.Nodup := (List.nodup_append.1 hd).2.1
    have hbl : ∀ i ∈ l.leaves, i < n.inputs.length :=
      fun i hi => hb i (by simp [BT.leaves, hi])
    have hbr : ∀ i ∈ r.leaves, i < n.inputs.length :=
      fun i hi => hb i (by simp [BT.leaves, hi])
    have hle := cnt_le_appIn n rm (.node l r) hd hb ix
    rw [cnt_node] at hle ⊢
    simp only [legs, keepOpen]
    rw [get_filter _ _ (keys_nodup_union _ _ (keys_nodup_legs n rm l)),
      get_union _ _ (keys_nodup_legs n rm r), ihl hdl hbl, ihr hdr hbr]
    unfold app at *
    simp only [decide_eq_true_eq]
    by_cases h1 : n.cnt rm l ix < n.appIn ix + occ n.output ix <;>
    by_cases h2 : n.cnt rm r ix < n.appIn ix + occ n.output ix <;>
    by_cases h3 : n.cnt rm l ix + n.cnt rm r ix < n.appIn ix + occ n.output ix <;>
    simp only [h1, h2, h3, if_true, if_false] <;> (try split) <;> omega

/-- involved = sum of the children's legs (pointwise) -/
theorem involved_get (n : Net) (rm l r ix) :
    Legs.get (n.involved rm (.node l r)) ix =
      Legs.get (n.legs rm l) ix + Legs.get (n.legs rm r) ix := by
  simp only [involved]
  exact get_union _ _ (keys_nodup_legs n rm r) ix

end Net
end Cotengra
