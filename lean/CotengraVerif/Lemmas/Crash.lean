import CotengraVerif.Model.Crash

/-! Helper lemmas for C15: file names of keys / temporaries, one-step effects on the file map,
    and the invariant carried along an admissible system-call trace. -/
namespace Cotengra.Crash

/-! ### names -/

theorem keyPath_inj (split : Bool) (k k' : Key) (h : keyPath split k = keyPath split k') :
    k = k' := by
  cases split
  · simpa [keyPath] using h
  · simp only [keyPath, if_true, List.cons.injEq, and_true] at h
    rw [← List.take_append_drop 2 k, ← List.take_append_drop 2 k', h.1, h.2]

theorem hexName_take (n : Nat) (k : Name) (h : hexName k = true) : hexName (k.take n) = true := by
  unfold hexName at *
  rw [List.all_eq_true] at *
  intro c hc
  exact h c (List.mem_of_mem_take hc)

theorem hexName_drop (n : Nat) (k : Name) (h : hexName k = true) : hexName (k.drop n) = true := by
  unfold hexName at *
  rw [List.all_eq_true] at *
  intro c hc
  exact h c (List.mem_of_mem_drop hc)

theorem isKeyPath_keyPath (split : Bool) (k : Key) (h : hexName k = true) :
    isKeyPath (keyPath split k) = true := by
  cases split
  · simpa [keyPath, isKeyPath] using h
  · simp [keyPath, isKeyPath, hexName_take 2 k h, hexName_drop 2 k h]

theorem hexName_dot (a b : Name) : hexName (a ++ '.' :: b) = false := by
  unfold hexName
  rw [List.all_append, List.all_cons]
  have : isHexChar '.' = false := by decide
  simp [this]

/-- the temporary file can never be mistaken for the entry of a key -/
theorem tmp_not_key (split : Bool) (k : Key) (tag : Name) :
    isKeyPath (tmpPath split k tag) = false := by
  cases split
  · simp [tmpPath, keyPath, isKeyPath, hexName_dot]
  · simp [tmpPath, keyPath, isKeyPath, hexName_dot]

theorem tmp_parent (split : Bool) (k : Key) (tag : Name) :
    FS.parent (tmpPath split k tag) = FS.parent (keyPath split k) := by
  cases split <;> simp [tmpPath, keyPath, FS.parent]

/-! ### one step -/

theorem files_setFile (fs : FS) (p : Path) (b : Option Bytes) (q : Path) :
    (fs.setFile p b).files q = if q = p then b else fs.files q := rfl

theorem dirs_setFile (fs : FS) (p : Path) (b : Option Bytes) : (fs.setFile p b).dirs = fs.dirs := rfl

/-- a call that does not name `q` leaves `q` alone -/
theorem files_step_other (fs : FS) (op : Op) (q : Path)
    (h : match op with
         | .mkdir _ => True
         | .create p => q ≠ p
         | .append p _ => q ≠ p
         | .unlink p => q ≠ p
         | .rename s d => q ≠ s ∧ q ≠ d) :
    (fs.step op).files q = fs.files q := by
  unfold FS.step
  split
  · cases op <;> simp_all [files_setFile]
  · rfl

/-- what `isKeyPath`-respecting calls are allowed to do (the per-call part of `admissible`) -/
def opOK (f : Path) (B : Bytes) (fs : FS) : Op → Bool
  | .mkdir _ => true
  | .create p => !isKeyPath p
  | .append p _ => !isKeyPath p
  | .unlink p => !isKeyPath p
  | .rename s d => !isKeyPath s && ((d == f && fs.files s == some B) || !isKeyPath d)

theorem admissible_cons (f : Path) (B : Bytes) (fs : FS) (op : Op) (rest : List Op) :
    admissible f B fs (op :: rest) = (opOK f B fs op && admissible f B (fs.step op) rest) := by
  cases op <;> rfl

/-- the invariant: relative to the state `fs0` before the write began, every file that can
    belong to a key is untouched, except that `f` may already hold the complete new content -/
def Inv (fs0 : FS) (f : Path) (B : Bytes) (fs : FS) : Prop :=
  (∀ p, isKeyPath p = true → p ≠ f → fs.files p = fs0.files p) ∧
  (fs.files f = fs0.files f ∨ fs.files f = some B)

theorem inv_step (fs0 : FS) (f : Path) (B : Bytes) (hf : isKeyPath f = true) (fs : FS) (op : Op)
    (hi : Inv fs0 f B fs) (hok : opOK f B fs op = true) : Inv fs0 f B (fs.step op) := by
  obtain ⟨h1, h2⟩ := hi
  cases op with
  | mkdir p =>
    have e : ∀ q, (fs.step (.mkdir p)).files q = fs.files q := fun q => files_step_other fs _ q trivial
    exact ⟨fun q hq hne => by rw [e]; exact h1 q hq hne, by rw [e]; exact h2⟩
  | create p =>
    have hp : isKeyPath p = false := by simpa [opOK] using hok
    have e : ∀ q, isKeyPath q = true → (fs.step (.create p)).files q = fs.files q := by
      intro q hq
      apply files_step_other
      show q ≠ p
      intro h; rw [h, hp] at hq; cases hq
    exact ⟨fun q hq hne => by rw [e q hq]; exact h1 q hq hne, by rw [e f hf]; exact h2⟩
  | append p b =>
    have hp : isKeyPath p = false := by simpa [opOK] using hok
    have e : ∀ q, isKeyPath q = true → (fs.step (.append p b)).files q = fs.files q := by
      intro q hq
      apply files_step_other
      show q ≠ p
      intro h; rw [h, hp] at hq; cases hq
    exact ⟨fun q hq hne => by rw [e q hq]; exact h1 q hq hne, by rw [e f hf]; exact h2⟩
  | unlink p =>
    have hp : isKeyPath p = false := by simpa [opOK] using hok
    have e : ∀ q, isKeyPath q = true → (fs.step (.unlink p)).files q = fs.files q := by
      intro q hq
      apply files_step_other
      show q ≠ p
      intro h; rw [h, hp] at hq; cases hq
    exact ⟨fun q hq hne => by rw [e q hq]; exact h1 q hq hne, by rw [e f hf]; exact h2⟩
  | rename s d =>
    simp only [opOK, Bool.and_eq_true, Bool.not_eq_true', Bool.or_eq_true, beq_iff_eq] at hok
    obtain ⟨hs, hd⟩ := hok
    have hne_s : ∀ q, isKeyPath q = true → q ≠ s := by
      intro q hq h; rw [h, hs] at hq; cases hq
    rcases hd with ⟨hdf, hsB⟩ | hd
    · -- the rename that installs the new entry
      subst hdf
      by_cases hc : fs.canStep (.rename s d) = true
      · have hfd : (fs.step (.rename s d)).files d = some B := by
          unfold FS.step
          rw [if_pos hc]
          simp only [files_setFile]
          rw [if_neg (hne_s d hf)]
          simpa using hsB
        refine ⟨fun q hq hne => ?_, Or.inr hfd⟩
        have := files_step_other fs (.rename s d) q ⟨hne_s q hq, hne⟩
        rw [this]
        exact h1 q hq hne
      · have : fs.step (.rename s d) = fs := by unfold FS.step; rw [if_neg hc]
        rw [this]; exact ⟨h1, h2⟩
    · have hne_d : ∀ q, isKeyPath q = true → q ≠ d := by
        intro q hq h; rw [h, hd] at hq; cases hq
      have e : ∀ q, isKeyPath q = true → (fs.step (.rename s d)).files q = fs.files q :=
        fun q hq => files_step_other fs _ q ⟨hne_s q hq, hne_d q hq⟩
      exact ⟨fun q hq hne => by rw [e q hq]; exact h1 q hq hne, by rw [e f hf]; exact h2⟩

theorem inv_partials (fs0 : FS) (f : Path) (B : Bytes) (hf : isKeyPath f = true) (fs : FS) (op : Op)
    (hi : Inv fs0 f B fs) (hok : opOK f B fs op = true) :
    ∀ fs' ∈ partials fs op, Inv fs0 f B fs' := by
  intro fs' hm
  cases op with
  | append p b =>
    simp only [partials, List.mem_map, List.mem_range] at hm
    obtain ⟨j, _, rfl⟩ := hm
    exact inv_step fs0 f B hf fs _ hi (by simpa [opOK] using hok)
  | mkdir p => simp [partials] at hm
  | create p => simp [partials] at hm
  | unlink p => simp [partials] at hm
  | rename s d => simp [partials] at hm

/-- **Invariant along an admissible trace, at every instant at which the writer can die.** -/
theorem inv_crashStates (fs0 : FS) (f : Path) (B : Bytes) (hf : isKeyPath f = true) :
    ∀ (ops : List Op) (fs : FS), Inv fs0 f B fs → admissible f B fs ops = true →
      ∀ fs' ∈ crashStates fs ops, Inv fs0 f B fs' := by
  intro ops
  induction ops with
  | nil =>
    intro fs hi _ fs' hm
    simp only [crashStates, List.mem_singleton] at hm
    rw [hm]; exact hi
  | cons op rest ih =>
    intro fs hi ha fs' hm
    rw [admissible_cons, Bool.and_eq_true] at ha
    simp only [crashStates, List.mem_cons, List.mem_append] at hm
    rcases hm with rfl | hm | hm
    · exact hi
    · exact inv_partials fs0 f B hf fs op hi ha.1 fs' hm
    · exact ih (fs.step op) (inv_step fs0 f B hf fs op hi ha.1) ha.2 fs' hm

end Cotengra.Crash

/-! ### the prefix discipline (in-place writers) -/
namespace Cotengra.Crash

def opOKP (f : Path) (B : Bytes) (fs : FS) : Op → Bool
  | .mkdir _ => true
  | .create p => p == f || !isKeyPath p
  | .append p b =>
    if p == f then
      (match fs.files f with
       | some c => (c ++ b).isPrefixOf B
       | none => true)
    else !isKeyPath p
  | .unlink p => !isKeyPath p
  | .rename s d => !isKeyPath s && ((d == f && fs.files s == some B) || !isKeyPath d)

theorem admissibleP_cons (f : Path) (B : Bytes) (fs : FS) (op : Op) (rest : List Op) :
    admissibleP f B fs (op :: rest) = (opOKP f B fs op && admissibleP f B (fs.step op) rest) := by
  cases op <;> rfl

/-- relative to the state before the write: other keys' files untouched; the entry's file holds
    what it held before, or some prefix of the complete new content -/
def InvP (fs0 : FS) (f : Path) (B : Bytes) (fs : FS) : Prop :=
  (∀ p, isKeyPath p = true → p ≠ f → fs.files p = fs0.files p) ∧
  (fs.files f = fs0.files f ∨ ∃ j, fs.files f = some (B.take j))

theorem prefix_take_of_prefix (c b B : Bytes) (i : Nat) (h : (c ++ b).isPrefixOf B = true) :
    ∃ j, c ++ b.take i = B.take j := by
  rw [List.isPrefixOf_iff_prefix] at h
  have h2 : c ++ b.take i <+: B :=
    List.IsPrefix.trans ((List.prefix_append_right_inj c).2 (List.take_prefix i b)) h
  exact ⟨(c ++ b.take i).length, List.prefix_iff_eq_take.1 h2⟩

/-- one (possibly cut) append to the entry's own file keeps the invariant -/
theorem invP_append_self (fs0 : FS) (f : Path) (B : Bytes) (fs : FS) (b : Bytes) (i : Nat)
    (hi : InvP fs0 f B fs)
    (hok : match fs.files f with
           | some c => (c ++ b).isPrefixOf B = true
           | none => True) :
    InvP fs0 f B (fs.step (.append f (b.take i))) := by
  obtain ⟨h1, h2⟩ := hi
  refine ⟨fun q hq hne => ?_, ?_⟩
  · rw [files_step_other fs (.append f (b.take i)) q hne]; exact h1 q hq hne
  · cases hc : fs.files f with
    | none =>
      have : fs.step (.append f (b.take i)) = fs := by
        unfold FS.step; rw [if_neg]; simp [FS.canStep, hc]
      rw [this, hc]; rw [hc] at h2; exact h2
    | some c =>
      rw [hc] at hok
      right
      obtain ⟨j, hj⟩ := prefix_take_of_prefix c b B i hok
      refine ⟨j, ?_⟩
      unfold FS.step
      rw [if_pos (by simp [FS.canStep, hc])]
      simp only [files_setFile, if_true, hc, Option.map_some]
      rw [hj]

theorem invP_step (fs0 : FS) (f : Path) (B : Bytes) (hf : isKeyPath f = true) (fs : FS) (op : Op)
    (hi : InvP fs0 f B fs) (hok : opOKP f B fs op = true) : InvP fs0 f B (fs.step op) := by
  have hi' := hi
  obtain ⟨h1, h2⟩ := hi
  cases op with
  | mkdir p =>
    have e : ∀ q, (fs.step (.mkdir p)).files q = fs.files q := fun q => files_step_other fs _ q trivial
    exact ⟨fun q hq hne => by rw [e]; exact h1 q hq hne, by rw [e]; exact h2⟩
  | create p =>
    simp only [opOKP, Bool.or_eq_true, beq_iff_eq, Bool.not_eq_true'] at hok
    rcases hok with rfl | hp
    · refine ⟨fun q hq hne => ?_, ?_⟩
      · rw [files_step_other fs (.create p) q hne]; exact h1 q hq hne
      · by_cases hc : fs.canStep (.create p) = true
        · right; refine ⟨0, ?_⟩
          unfold FS.step; rw [if_pos hc]; simp [files_setFile]
        · have : fs.step (.create p) = fs := by unfold FS.step; rw [if_neg hc]
          rw [this]; exact h2
    · have e : ∀ q, isKeyPath q = true → (fs.step (.create p)).files q = fs.files q := by
        intro q hq
        apply files_step_other
        show q ≠ p
        intro h; rw [h, hp] at hq; cases hq
      exact ⟨fun q hq hne => by rw [e q hq]; exact h1 q hq hne, by rw [e f hf]; exact h2⟩
  | append p b =>
    by_cases hpf : p = f
    · subst hpf
      have := invP_append_self fs0 p B fs b b.length hi' (by
        simp only [opOKP, beq_self_eq_true, if_true] at hok
        cases hc : fs.files p with
        | none => trivial
        | some c => rw [hc] at hok; exact hok)
      rwa [List.take_length] at this
    · have hp : isKeyPath p = false := by
        simp only [opOKP, beq_iff_eq, hpf, if_false, Bool.not_eq_true'] at hok; exact hok
      have e : ∀ q, isKeyPath q = true → (fs.step (.append p b)).files q = fs.files q := by
        intro q hq
        apply files_step_other
        show q ≠ p
        intro h; rw [h, hp] at hq; cases hq
      exact ⟨fun q hq hne => by rw [e q hq]; exact h1 q hq hne, by rw [e f hf]; exact h2⟩
  | unlink p =>
    have hp : isKeyPath p = false := by simpa [opOKP] using hok
    have e : ∀ q, isKeyPath q = true → (fs.step (.unlink p)).files q = fs.files q := by
      intro q hq
      apply files_step_other
      show q ≠ p
      intro h; rw [h, hp] at hq; cases hq
    exact ⟨fun q hq hne => by rw [e q hq]; exact h1 q hq hne, by rw [e f hf]; exact h2⟩
  | rename s d =>
    simp only [opOKP, Bool.and_eq_true, Bool.not_eq_true', Bool.or_eq_true, beq_iff_eq] at hok
    obtain ⟨hs, hd⟩ := hok
    have hne_s : ∀ q, isKeyPath q = true → q ≠ s := by
      intro q hq h; rw [h, hs] at hq; cases hq
    rcases hd with ⟨hdf, hsB⟩ | hd
    · subst hdf
      by_cases hc : fs.canStep (.rename s d) = true
      · have hfd : (fs.step (.rename s d)).files d = some B := by
          unfold FS.step
          rw [if_pos hc]
          simp only [files_setFile]
          rw [if_neg (hne_s d hf)]
          simpa using hsB
        refine ⟨fun q hq hne => ?_, Or.inr ⟨B.length, by rw [hfd, List.take_length]⟩⟩
        have := files_step_other fs (.rename s d) q ⟨hne_s q hq, hne⟩
        rw [this]
        exact h1 q hq hne
      · have : fs.step (.rename s d) = fs := by unfold FS.step; rw [if_neg hc]
        rw [this]; exact ⟨h1, h2⟩
    · have hne_d : ∀ q, isKeyPath q = true → q ≠ d := by
        intro q hq h; rw [h, hd] at hq; cases hq
      have e : ∀ q, isKeyPath q = true → (fs.step (.rename s d)).files q = fs.files q :=
        fun q hq => files_step_other fs _ q ⟨hne_s q hq, hne_d q hq⟩
      exact ⟨fun q hq hne => by rw [e q hq]; exact h1 q hq hne, by rw [e f hf]; exact h2⟩

theorem invP_partials (fs0 : FS) (f : Path) (B : Bytes) (hf : isKeyPath f = true) (fs : FS) (op : Op)
    (hi : InvP fs0 f B fs) (hok : opOKP f B fs op = true) :
    ∀ fs' ∈ partials fs op, InvP fs0 f B fs' := by
  intro fs' hm
  cases op with
  | append p b =>
    simp only [partials, List.mem_map, List.mem_range] at hm
    obtain ⟨j, _, rfl⟩ := hm
    by_cases hpf : p = f
    · subst hpf
      apply invP_append_self fs0 p B fs b j hi
      simp only [opOKP, beq_self_eq_true, if_true] at hok
      cases hc : fs.files p with
      | none => trivial
      | some c => rw [hc] at hok; exact hok
    · apply invP_step fs0 f B hf fs _ hi
      simp only [opOKP, beq_iff_eq, hpf, if_false] at hok ⊢
      exact hok
  | mkdir p => simp [partials] at hm
  | create p => simp [partials] at hm
  | unlink p => simp [partials] at hm
  | rename s d => simp [partials] at hm

theorem invP_crashStates (fs0 : FS) (f : Path) (B : Bytes) (hf : isKeyPath f = true) :
    ∀ (ops : List Op) (fs : FS), InvP fs0 f B fs → admissibleP f B fs ops = true →
      ∀ fs' ∈ crashStates fs ops, InvP fs0 f B fs' := by
  intro ops
  induction ops with
  | nil =>
    intro fs hi _ fs' hm
    simp only [crashStates, List.mem_singleton] at hm
    rw [hm]; exact hi
  | cons op rest ih =>
    intro fs hi ha fs' hm
    rw [admissibleP_cons, Bool.and_eq_true] at ha
    simp only [crashStates, List.mem_cons, List.mem_append] at hm
    rcases hm with rfl | hm | hm
    · exact hi
    · exact invP_partials fs0 f B hf fs op hi ha.1 fs' hm
    · exact ih (fs.step op) (invP_step fs0 f B hf fs op hi ha.1) ha.2 fs' hm

end Cotengra.Crash

/-! ### layout: nothing but directories below the root of a split cache -/
namespace Cotengra.Crash

/-- no regular file directly below the cache directory -/
def RootNoFiles (fs : FS) : Prop := ∀ n, fs.files [n] = none

theorem rootNoFiles_step (fs : FS) (op : Op) (h : RootNoFiles fs) (hok : rootClean true op = true) :
    RootNoFiles (fs.step op) := by
  intro n
  unfold FS.step
  split
  · rename_i hc
    cases op with
    | mkdir p => exact h n
    | create p =>
      have hp : p.length ≠ 1 := by simpa [rootClean] using hok
      simp only [files_setFile]
      rw [if_neg (fun e => hp (by rw [← e]; rfl))]
      exact h n
    | append p b =>
      simp only [files_setFile]
      by_cases e : [n] = p
      · subst e
        simp [FS.canStep, h n] at hc
      · rw [if_neg e]; exact h n
    | rename s d =>
      have hd : d.length ≠ 1 := by simpa [rootClean] using hok
      simp only [files_setFile]
      by_cases e1 : [n] = s
      · simp [e1]
      · rw [if_neg e1, if_neg (fun e => hd (by rw [← e]; rfl))]
        exact h n
    | unlink p =>
      simp only [files_setFile]
      by_cases e : [n] = p
      · simp [e]
      · rw [if_neg e]; exact h n
  · exact h n

theorem rootNoFiles_crashStates : ∀ (ops : List Op) (fs : FS), RootNoFiles fs → layoutOK true ops = true →
    ∀ fs' ∈ crashStates fs ops, RootNoFiles fs' := by
  intro ops
  induction ops with
  | nil =>
    intro fs h _ fs' hm
    simp only [crashStates, List.mem_singleton] at hm
    rw [hm]; exact h
  | cons op rest ih =>
    intro fs h hl fs' hm
    simp only [layoutOK, List.all_cons, Bool.and_eq_true] at hl
    simp only [crashStates, List.mem_cons, List.mem_append] at hm
    rcases hm with rfl | hm | hm
    · exact h
    · cases op with
      | append p b =>
        simp only [partials, List.mem_map, List.mem_range] at hm
        obtain ⟨j, _, rfl⟩ := hm
        exact rootNoFiles_step fs _ h rfl
      | mkdir p => simp [partials] at hm
      | create p => simp [partials] at hm
      | unlink p => simp [partials] at hm
      | rename s d => simp [partials] at hm
    · exact ih (fs.step op) (rootNoFiles_step fs op h hl.1) (by simpa [layoutOK] using hl.2) fs' hm

end Cotengra.Crash
