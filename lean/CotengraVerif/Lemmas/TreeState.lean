import CotengraVerif.Model.TreeState
import CotengraVerif.Props.C03

/-!
  Lemmas linking the abstract tree state machine to the leaf-set facts of C03:
  how every per-node figure changes when an index is added to the removed set.
-/
namespace Cotengra
open Cotengra.Net Cotengra.Legs

theorem leaves_combOf (S : List Nat) (h : S ≠ []) : (combOf S).leaves = S := by
  induction S with
  | nil => exact absurd rfl h
  | cons a t ih =>
    cases t with
    | nil => rfl
    | cons b t' =>
      simp only [combOf, BT.leaves]
      rw [ih (by simp)]
      rfl

namespace Legs

theorem has_iff_mem_keys (L : Legs) (ix : Ix) : L.has ix = true ↔ ix ∈ keys L := by
  induction L with
  | nil => simp [has, keys]
  | cons kv t ih =>
    obtain ⟨k, v⟩ := kv
    simp only [has, Bool.or_eq_true, beq_iff_eq, keys, List.map_cons, List.mem_cons]
    simp only [keys] at ih
    rw [ih]
    constructor
    · rintro (h | h)
      · exact Or.inl h.symm
      · exact Or.inr h
    · rintro (h | h)
      · exact Or.inl h.symm
      · exact Or.inr h

end Legs

namespace Net

/-- the removed list matters only through membership -/
theorem termRm_congr (n : Net) (rm1 rm2 : List Ix) (h : ∀ x, x ∈ rm1 ↔ x ∈ rm2) (i : Nat) :
    n.termRm rm1 i = n.termRm rm2 i := by
  unfold termRm
  apply List.filter_congr
  intro x _
  have : rm1.contains x = rm2.contains x := by
    rw [Bool.eq_iff_iff]; simp [h x]
  rw [this]

theorem leafLegs_congr (n : Net) (rm1 rm2 : List Ix) (h : ∀ x, x ∈ rm1 ↔ x ∈ rm2) (i : Nat) :
    n.leafLegs rm1 i = n.leafLegs rm2 i := by
  unfold leafLegs leafLegsPre
  rw [termRm_congr n rm1 rm2 h i]

theorem legs_congr (n : Net) (rm1 rm2 : List Ix) (h : ∀ x, x ∈ rm1 ↔ x ∈ rm2) (t : BT) :
    n.legs rm1 t = n.legs rm2 t := by
  induction t with
  | leaf i => exact leafLegs_congr n rm1 rm2 h i
  | node l r ihl ihr => simp only [legs, ihl, ihr]

theorem rootLegs_congr (n : Net) (rm1 rm2 : List Ix) (h : ∀ x, x ∈ rm1 ↔ x ∈ rm2) :
    n.rootLegs rm1 = n.rootLegs rm2 := by
  unfold rootLegs
  congr 1
  apply List.filter_congr
  intro x _
  have : rm1.contains x = rm2.contains x := by
    rw [Bool.eq_iff_iff]; simp [h x]
  rw [this]

end Net

namespace TS

/-- the state with one more removed index -/
def withRm (s : TS) (rm : List Ix) : TS := { s with rm := rm }

@[simp] theorem withRm_N (s : TS) (rm) : (s.withRm rm).N = s.N := rfl

/-- a child entry's operands are well formed: non-empty, disjoint, in range -/
structure GoodPair (s : TS) (l r : Node) : Prop where
  nel : l ≠ []
  ner : r ≠ []
  nodup : (l ++ r).Nodup
  inrange : ∀ i ∈ l ++ r, i < s.N

theorem GoodPair.bt_nodup {s : TS} {l r : Node} (g : GoodPair s l r) :
    (BT.node (combOf l) (combOf r)).leaves.Nodup := by
  simp only [BT.leaves, leaves_combOf l g.nel, leaves_combOf r g.ner]
  exact g.nodup

theorem GoodPair.bt_inrange {s : TS} {l r : Node} (g : GoodPair s l r) :
    ∀ i ∈ (BT.node (combOf l) (combOf r)).leaves, i < s.net.inputs.length := by
  simp only [BT.leaves, leaves_combOf l g.nel, leaves_combOf r g.ner]
  exact g.inrange

theorem flopsOf_eq_nodeFlops (s : TS) (l r : Node) :
    s.flopsOf l r = s.net.nodeFlops s.rm (.node (combOf l) (combOf r)) := rfl

/-- `ix` is involved in the step `(l, r)` -/
def Involves (s : TS) (l r : Node) (ix : Ix) : Prop :=
  s.net.Surv s.rm (combOf l) ix ∨ s.net.Surv s.rm (combOf r) ix

theorem involvedOf_has_iff (s : TS) (l r : Node) (g : GoodPair s l r) (ix : Ix) :
    (s.involvedOf l r).has ix = true ↔ s.Involves l r ix := by
  rw [Legs.has_iff_mem_keys]
  exact C03.involved_iff s.net s.rm (combOf l) (combOf r) g.bt_nodup g.bt_inrange ix

/-- removing `ix` divides the flops of exactly the steps that involve it (the `// d` at
    core.py:1655 is exact) -/
theorem flopsOf_cons (s : TS) (l r : Node) (g : GoodPair s l r) (ix : Ix)
    (hd : 0 < s.net.size ix) :
    (s.withRm (ix :: s.rm)).flopsOf l r =
      if (s.involvedOf l r).has ix then s.flopsOf l r / s.net.size ix else s.flopsOf l r := by
  have h := C03.slice_flops s.net s.rm ix (combOf l) (combOf r) g.bt_nodup g.bt_inrange
  have hi := involvedOf_has_iff s l r g ix
  simp only [flopsOf_eq_nodeFlops, withRm] at *
  by_cases hv : (s.involvedOf l r).has ix = true
  · have : s.net.Surv s.rm (combOf l) ix ∨ s.net.Surv s.rm (combOf r) ix := hi.1 hv
    simp only [this, if_true] at h
    simp only [hv, if_true]
    rw [← h, Nat.mul_div_cancel _ hd]
  · have : ¬ (s.net.Surv s.rm (combOf l) ix ∨ s.net.Surv s.rm (combOf r) ix) := fun c => hv (hi.2 c)
    simp only [this, if_false, Nat.mul_one] at h
    simp only [hv]
    exact h


/-- a node is well formed: non-empty, duplicate-free, in range -/
structure GoodNode (s : TS) (p : Node) : Prop where
  ne : p ≠ []
  nodup : p.Nodup
  inrange : ∀ i ∈ p, i < s.N

theorem prod_filter_ne (f : Ix → Nat) (L : List Ix) (hnd : L.Nodup) (ix : Ix) :
    ((L.filter (fun x => x != ix)).map f).prod * (if ix ∈ L then f ix else 1) = (L.map f).prod := by
  induction L with
  | nil => simp
  | cons a t ih =>
    have hnd' := List.nodup_cons.1 hnd
    have iht := ih hnd'.2
    by_cases ha : a = ix
    · subst ha
      have e : t.filter (fun x => x != a) = t := by
        apply List.filter_eq_self.2
        intro x hx
        have : x ≠ a := fun e => hnd'.1 (e ▸ hx)
        simpa using this
      simp [List.filter_cons, e, Nat.mul_comm]
    · have hmem : (ix ∈ a :: t) ↔ ix ∈ t := by
        rw [List.mem_cons]
        constructor
        · rintro (e | e)
          · exact absurd e.symm ha
          · exact e
        · exact Or.inr
      have e1 : (a :: t).filter (fun x => x != ix) = a :: t.filter (fun x => x != ix) := by
        simp [List.filter_cons, ha]
      rw [e1]
      simp only [hmem, List.map_cons, List.prod_cons]
      rw [Nat.mul_assoc, iht]

theorem keys_rootLegs (n : Net) (rm : List Ix) :
    Legs.keys (n.rootLegs rm) = n.output.filter (fun ix => !rm.contains ix) := by
  unfold Net.rootLegs Legs.keys
  rw [List.map_map]
  simp [Function.comp_def]

theorem rootLegs_cons_keys (n : Net) (rm : List Ix) (ix : Ix) :
    Legs.keys (n.rootLegs (ix :: rm)) = (Legs.keys (n.rootLegs rm)).filter (fun x => x != ix) := by
  rw [keys_rootLegs, keys_rootLegs, List.filter_filter]
  apply List.filter_congr
  intro x _
  simp only [List.contains_cons, Bool.not_or, bne, Bool.and_comm]

/-- removing `ix` divides the size of exactly the nodes that carry it (core.py:1660-1668);
    the root carries the output indices. Needs a duplicate-free output (numpy requires it). -/
theorem sizeOf_cons (s : TS) (p : Node) (g : GoodNode s p) (ix : Ix) (hd : 0 < s.net.size ix)
    (hout : s.net.output.Nodup) :
    (s.withRm (ix :: s.rm)).sizeOf p =
      if (s.legsOf p).has ix then s.sizeOf p / s.net.size ix else s.sizeOf p := by
  unfold sizeOf legsOf figSize figLegs withRm
  simp only
  by_cases hroot : (p.length == s.net.inputs.length) = true
  · simp only [hroot, if_true]
    rw [Net.sizeOfLegs_eq_prod, Net.sizeOfLegs_eq_prod, rootLegs_cons_keys]
    have hnd : (Legs.keys (s.net.rootLegs s.rm)).Nodup := by
      rw [keys_rootLegs]; exact hout.filter _
    have h := prod_filter_ne s.net.size (Legs.keys (s.net.rootLegs s.rm)) hnd ix
    by_cases hh : (s.net.rootLegs s.rm).has ix = true
    · have hm := (Legs.has_iff_mem_keys _ _).1 hh
      simp only [hm, if_true] at h
      simp only [hh, if_true]
      rw [← h, Nat.mul_div_cancel _ hd]
    · have hm : ¬ ix ∈ Legs.keys (s.net.rootLegs s.rm) := fun c => hh ((Legs.has_iff_mem_keys _ _).2 c)
      simp only [hm, if_false, Nat.mul_one] at h
      simp only [hh]
      exact h
  · simp only [hroot]
    have hl : (combOf p).leaves = p := leaves_combOf p g.ne
    have hnd : (combOf p).leaves.Nodup := by rw [hl]; exact g.nodup
    have hb : ∀ i ∈ (combOf p).leaves, i < s.net.inputs.length := by
      rw [hl]; exact g.inrange
    have h := C03.slice_size s.net s.rm ix (combOf p) hnd hb
    have hi := Net.mem_legs_iff_surv s.net s.rm (combOf p) hnd hb ix
    simp only [Bool.false_eq_true, if_false]
    unfold Net.nodeSize at h
    by_cases hh : (s.net.legs s.rm (combOf p)).has ix = true
    · have hm := (Legs.has_iff_mem_keys _ _).1 hh
      simp only [hi.1 hm, if_true] at h
      simp only [hh, if_true]
      rw [← h, Nat.mul_div_cancel _ hd]
    · have : ¬ s.net.Surv s.rm (combOf p) ix :=
        fun c => hh ((Legs.has_iff_mem_keys _ _).2 (hi.2 c))
      simp only [this, if_false, Nat.mul_one] at h
      simp only [hh]
      exact h

end TS
end Cotengra

namespace Cotengra
open Cotengra.Net Cotengra.Legs
namespace TS

theorem cnt_perm (n : Net) (rm : List Ix) (t1 t2 : BT) (h : t1.leaves.Perm t2.leaves) (ix : Ix) :
    n.cnt rm t1 ix = n.cnt rm t2 ix := by
  unfold Net.cnt
  exact (h.map _).sum_eq

theorem cnt_combOf_append (n : Net) (rm : List Ix) (p l r : Node) (hl : l ≠ []) (hr : r ≠ [])
    (hp : p ≠ []) (h : p.Perm (l ++ r)) (ix : Ix) :
    n.cnt rm (combOf p) ix = n.cnt rm (combOf l) ix + n.cnt rm (combOf r) ix := by
  unfold Net.cnt
  rw [leaves_combOf p hp, leaves_combOf l hl, leaves_combOf r hr, (h.map _).sum_eq]
  simp

/-- a duplicate-free in-range list of full length is a permutation of all positions -/
theorem perm_range_of_full (p : List Nat) (N : Nat) (hnd : p.Nodup) (hb : ∀ i ∈ p, i < N)
    (hlen : p.length = N) : p.Perm (List.range N) := by
  have hsub : p ⊆ List.range N := fun i hi => List.mem_range.2 (hb i hi)
  have hsp := List.subperm_of_subset hnd hsub
  exact hsp.perm_of_length_le (by simp [hlen])

theorem occ_termRm_of_not_mem (n : Net) (rm : List Ix) (i : Nat) (ix : Ix) (h : ix ∉ rm) :
    occ (n.termRm rm i) ix = occ (n.term i) ix := by
  unfold termRm occ
  apply List.count_filter
  simpa using h

theorem cnt_root (n : Net) (rm : List Ix) (p : Node) (hp : p ≠ []) (hnd : p.Nodup)
    (hb : ∀ i ∈ p, i < n.inputs.length) (hlen : p.length = n.inputs.length) (ix : Ix)
    (h : ix ∉ rm) : n.cnt rm (combOf p) ix = n.appIn ix := by
  unfold Net.cnt
  rw [leaves_combOf p hp, appIn_eq_range,
    ((perm_range_of_full p _ hnd hb hlen).map _).sum_eq]
  congr 1
  apply List.map_congr_left
  intro i _
  exact occ_termRm_of_not_mem n rm i ix h

/-- an index on the legs of a node is involved in the step that makes it -/
theorem legs_has_imp_involved (s : TS) (p l r : Node) (gp : GoodNode s p) (g : GoodPair s l r)
    (hu : p.Perm (l ++ r)) (hout : ∀ ix ∈ s.net.output, 0 < s.net.appIn ix) (ix : Ix)
    (h : (s.legsOf p).has ix = true) : (s.involvedOf l r).has ix = true := by
  rw [involvedOf_has_iff s l r g]
  have hcl := Net.cnt_le_appIn s.net s.rm (combOf l)
    (by rw [leaves_combOf l g.nel]; exact (List.nodup_append.1 g.nodup).1)
    (by rw [leaves_combOf l g.nel]; exact fun i hi => g.inrange i (List.mem_append_left _ hi)) ix
  have hcr := Net.cnt_le_appIn s.net s.rm (combOf r)
    (by rw [leaves_combOf r g.ner]; exact (List.nodup_append.1 g.nodup).2.1)
    (by rw [leaves_combOf r g.ner]; exact fun i hi => g.inrange i (List.mem_append_right _ hi)) ix
  have hsum := cnt_combOf_append s.net s.rm p l r g.nel g.ner gp.ne hu ix
  unfold legsOf figLegs at h
  unfold Involves Net.Surv
  by_cases hroot : (p.length == s.net.inputs.length) = true
  · simp only [hroot, if_true] at h
    have hm := (Legs.has_iff_mem_keys _ _).1 h
    rw [keys_rootLegs, List.mem_filter] at hm
    have hnrm : ix ∉ s.rm := by simpa using hm.2
    have hpos := hout ix hm.1
    have hocc : 0 < occ s.net.output ix := List.count_pos_iff.2 hm.1
    have hc := cnt_root s.net s.rm p gp.ne gp.nodup gp.inrange (by simpa using hroot) ix hnrm
    unfold Net.app
    omega
  · simp only [hroot] at h
    have hm := (Legs.has_iff_mem_keys _ _).1 h
    have hl : (combOf p).leaves = p := leaves_combOf p gp.ne
    have hs := (Net.mem_legs_iff_surv s.net s.rm (combOf p) (by rw [hl]; exact gp.nodup)
      (by rw [hl]; exact gp.inrange) ix).1 hm
    unfold Net.Surv at hs
    omega

end TS
end Cotengra
