import CotengraVerif.Model.RngFlow

/-!
  Soundness of the generator-variable analysis of `Model/RngFlow.lean`: if `analyse` reports no
  sink on a skeleton, then in *every* execution of the skeleton (whatever the unknown conditions
  evaluate to, however often the loops iterate, whatever integers are drawn) every sink receives
  a value derived from the seed.
-/
namespace Cotengra.RFlow

/-- concretisation: the environment `c` is described by the abstract state `a` -/
def InG (c : Var → RVal) (a : AState) : Prop := a.live = true ∧ ∀ x, AVal.mem (c x) (a.get x) = true

theorem mem_top (v : RVal) : AVal.mem v AVal.top = true := by cases v <;> rfl

theorem mem_le {v : RVal} {a b : AVal} (h : a.le b = true) (hv : a.mem v = true) : b.mem v = true := by
  obtain ⟨a1, a2, a3, a4⟩ := a
  obtain ⟨b1, b2, b3, b4⟩ := b
  cases v <;> simp_all [AVal.le, AVal.mem]

theorem mem_join_l {v : RVal} {a b : AVal} (hv : a.mem v = true) : (a.join b).mem v = true := by
  cases v <;> simp_all [AVal.join, AVal.mem]

theorem mem_join_r {v : RVal} {a b : AVal} (hv : b.mem v = true) : (a.join b).mem v = true := by
  cases v <;> simp_all [AVal.join, AVal.mem]

/-! ### states -/

theorem get_zipWith (a b : List AVal) (x : Nat) (v : RVal)
    (h : AVal.mem v (a.getD x AVal.top) = true ∨ AVal.mem v (b.getD x AVal.top) = true) :
    AVal.mem v ((List.zipWith AVal.join a b).getD x AVal.top) = true := by
  simp only [List.getD_eq_getElem?_getD, List.getElem?_zipWith] at *
  cases ha : a[x]? <;> cases hb : b[x]? <;> simp_all [mem_top]
  rcases h with h | h
  · exact mem_join_l h
  · exact mem_join_r h

theorem inG_join_l {c : Var → RVal} {a b : AState} (h : InG c a) : InG c (a.join b) := by
  unfold AState.join
  obtain ⟨hl, hx⟩ := h
  simp only [hl, Bool.not_true, Bool.false_eq_true, if_false]
  split
  · exact ⟨hl, hx⟩
  · refine ⟨rfl, fun x => ?_⟩
    exact get_zipWith _ _ x (c x) (Or.inl (hx x))

theorem inG_join_r {c : Var → RVal} {a b : AState} (h : InG c b) : InG c (a.join b) := by
  unfold AState.join
  obtain ⟨hl, hx⟩ := h
  split
  · exact ⟨hl, hx⟩
  · simp only [hl, Bool.not_true, Bool.false_eq_true, if_false]
    refine ⟨rfl, fun x => ?_⟩
    exact get_zipWith _ _ x (c x) (Or.inr (hx x))

theorem inG_le {c : Var → RVal} {a b : AState} (hle : a.le b = true) (h : InG c a) : InG c b := by
  obtain ⟨hl, hx⟩ := h
  unfold AState.le at hle
  simp only [hl, Bool.not_true, Bool.false_or, Bool.and_eq_true, beq_iff_eq] at hle
  obtain ⟨⟨hbl, hlen⟩, hall⟩ := hle
  have hlen' : a.vals.length = b.vals.length := by simpa using hlen
  refine ⟨hbl, fun (x : Nat) => ?_⟩
  by_cases hxl : x < a.vals.length
  · have := (List.all_eq_true.1 hall) x (List.mem_range.2 hxl)
    exact mem_le this (hx x)
  · have hb : b.vals.length ≤ x := by omega
    have : b.get x = AVal.top := by
      unfold AState.get
      rw [List.getD_eq_getElem?_getD, List.getElem?_eq_none hb]
      rfl
    rw [this]; exact mem_top _

theorem inG_set {c : Var → RVal} {a : AState} {x : Var} {v : RVal} {w : AVal}
    (h : InG c a) (hv : w.mem v = true) : InG (upd c x v) (a.set x w) := by
  obtain ⟨hl, hx⟩ := h
  refine ⟨hl, fun y => ?_⟩
  unfold upd AState.set AState.get
  simp only [List.getD_eq_getElem?_getD, List.getElem?_set]
  by_cases hy : y = x
  · subst hy
    simp only [if_true]
    split
    · simpa using hv
    · have : a.vals[y]? = none := List.getElem?_eq_none (by omega)
      simp [mem_top]
  · have hne : ¬ x = y := fun h => hy h.symm
    simp only [hy, hne, if_false]
    have := hx y
    simpa [AState.get, List.getD_eq_getElem?_getD] using this

/-! ### expressions -/

theorem evalC_ne_unbound (c : Var → RVal) : ∀ (e : RExpr) (v : RVal), v ∈ evalC c e → v ≠ .unbound := by
  intro e
  induction e with
  | var x => intro v hv; simp only [evalC] at hv; split at hv <;> simp_all
  | none => intro v hv; simp_all [evalC]
  | globalMod => intro v hv; simp_all [evalC]
  | const => intro v hv; simp only [evalC, List.mem_cons, List.not_mem_nil, or_false] at hv; rcases hv with h | h <;> simp [h]
  | getRng e ih =>
    intro v hv
    simp only [evalC, List.mem_map] at hv
    obtain ⟨w, hw, rfl⟩ := hv
    have := ih w hw
    cases w <;> simp_all [getRngV]
  | draw e ih =>
    intro v hv
    simp only [evalC, List.mem_flatMap] at hv
    obtain ⟨w, _, hv⟩ := hv
    cases w <;> simp_all [drawV] <;> rcases hv with h | h <;> simp [h]
  | orElse a b iha ihb =>
    intro v hv
    simp only [evalC, List.mem_flatMap] at hv
    obtain ⟨w, _, hv⟩ := hv
    cases w <;> simp only [List.mem_cons, List.not_mem_nil, or_false] at hv
    · simp [hv]
    · exact ihb v hv
    · rcases hv with h | h
      · simp [h]
      · exact ihb v h
    · exact ihb v hv
  | choice a b iha ihb =>
    intro v hv
    simp only [evalC, List.mem_append] at hv
    rcases hv with h | h
    · exact iha v h
    · exact ihb v h
  | both a b _ _ =>
    intro v hv
    simp only [evalC, List.mem_flatMap] at hv
    obtain ⟨w, _, u, _, hv⟩ := hv
    cases w <;> cases u <;> simp only [bothV, List.mem_cons, List.not_mem_nil, or_false] at hv <;>
      (first | (rcases hv with h | h <;> simp [h]) | simp [hv])

theorem getRng_sound {w : RVal} {A : AVal} (h : A.mem w = true) (hw : w ≠ .unbound) :
    (getRngA A).mem (getRngV w) = true := by
  obtain ⟨a1, a2, a3, a4⟩ := A
  cases w <;> simp_all [getRngA, getRngV, AVal.mem]

theorem draw_sound {w v : RVal} {A : AVal} (h : A.mem w = true) (hv : v ∈ drawV w) :
    (drawA A).mem v = true := by
  obtain ⟨a1, a2, a3, a4⟩ := A
  cases w <;> simp only [drawV, List.mem_cons, List.not_mem_nil, or_false] at hv
  · rcases hv with h' | h' <;> subst h' <;> simp_all [drawA, AVal.mem]
  · rcases hv with h' | h' <;> subst h' <;> simp_all [drawA, AVal.mem]
  · subst hv; simp_all [drawA, AVal.mem]

theorem both_sound {w u v : RVal} {A B : AVal} (hA : A.mem w = true) (hB : B.mem u = true)
    (hw : w ≠ .unbound) (hu : u ≠ .unbound) (hv : v ∈ bothV w u) : (bothA A B).mem v = true := by
  obtain ⟨a1, a2, a3, a4⟩ := A
  obtain ⟨b1, b2, b3, b4⟩ := B
  cases w <;> cases u <;> simp only [bothV, List.mem_cons, List.not_mem_nil, or_false] at hv <;>
    first
    | (rcases hv with h' | h' <;> subst h' <;>
        simp_all [bothA, AVal.mem, AVal.anyGood, AVal.isBot])
    | (subst hv; simp_all [bothA, AVal.mem, AVal.anyGood, AVal.isBot])
    | exact absurd rfl hw
    | exact absurd rfl hu

theorem evalA_sound (c : Var → RVal) (s : AState) (hin : InG c s) :
    ∀ (e : RExpr) (v : RVal), v ∈ evalC c e → (evalA s e).mem v = true := by
  intro e
  induction e with
  | var x =>
    intro v hv
    simp only [evalC] at hv
    split at hv
    · simp at hv
    · simp only [List.mem_singleton] at hv; subst hv; exact hin.2 x
  | none => intro v hv; simp_all [evalC, evalA, AVal.mem]
  | globalMod => intro v hv; simp_all [evalC, evalA, AVal.mem]
  | const =>
    intro v hv
    simp only [evalC, List.mem_cons, List.not_mem_nil, or_false] at hv
    rcases hv with h | h <;> subst h <;> rfl
  | getRng e ih =>
    intro v hv
    simp only [evalC, List.mem_map] at hv
    obtain ⟨w, hw, rfl⟩ := hv
    exact getRng_sound (ih w hw) (evalC_ne_unbound c e w hw)
  | draw e ih =>
    intro v hv
    simp only [evalC, List.mem_flatMap] at hv
    obtain ⟨w, hw, hv⟩ := hv
    exact draw_sound (ih w hw) hv
  | orElse a b iha ihb =>
    intro v hv
    simp only [evalC, List.mem_flatMap] at hv
    obtain ⟨w, hw, hv⟩ := hv
    have hA := iha w hw
    simp only [evalA]
    generalize evalA s a = A at hA
    have hB : ∀ u, u ∈ evalC c b → (evalA s b).mem u = true := ihb
    generalize evalA s b = B at hB
    obtain ⟨a1, a2, a3, a4⟩ := A
    obtain ⟨b1, b2, b3, b4⟩ := B
    cases w <;> simp only [List.mem_cons, List.not_mem_nil, or_false] at hv
    · subst hv; simp_all [orElseA, AVal.mem]
    · have := hB v hv
      cases v <;> simp_all [orElseA, AVal.mem]
    · rcases hv with h | h
      · subst h; simp_all [orElseA, AVal.mem]
      · have := hB v h
        cases v <;> simp_all [orElseA, AVal.mem]
    · have := hB v hv
      cases v <;> simp_all [orElseA, AVal.mem]
  | choice a b iha ihb =>
    intro v hv
    simp only [evalC, List.mem_append] at hv
    rcases hv with h | h
    · exact mem_join_l (iha v h)
    · exact mem_join_r (ihb v h)
  | both a b iha ihb =>
    intro v hv
    simp only [evalC, List.mem_flatMap] at hv
    obtain ⟨w, hw, u, hu, hv⟩ := hv
    exact both_sound (iha w hw) (ihb u hu) (evalC_ne_unbound c a w hw) (evalC_ne_unbound c b u hu) hv

/-! ### refinement by a test -/

theorem inG_refine {c : Var → RVal} {s : AState} {x : Var} {keep : AVal} (h : InG c s)
    (hk : keep.mem (c x) = true) (hb : c x ≠ .unbound) : InG c (refine s x keep) := by
  have hx := h.2 x
  unfold refine
  generalize hv : s.get x = V at hx
  obtain ⟨v1, v2, v3, v4⟩ := V
  obtain ⟨k1, k2, k3, k4⟩ := keep
  have hmem : AVal.mem (c x) ⟨v1 && k1, v2 && k2, v3 && k3, v4 && k4⟩ = true := by
    cases hc : c x <;> simp_all [AVal.mem]
  have hnb : AVal.isBot ⟨v1 && k1, v2 && k2, v3 && k3, v4 && k4⟩ = false := by
    cases hc : c x <;> simp_all [AVal.mem, AVal.isBot]
  simp only [hnb, Bool.false_eq_true, if_false]
  have := inG_set (x := x) (v := c x) h hmem
  have hupd : upd c x (c x) = c := by
    funext y; unfold upd; split <;> simp_all
  rw [hupd] at this
  exact this

/-! ### loops -/

theorem inG_iter (f : AState → AState) {c : Var → RVal} :
    ∀ (n : Nat) (I : AState), InG c I → InG c (iter f n I) := by
  intro n
  induction n with
  | zero => intro I h; exact h
  | succ n ih =>
    intro I h
    simp only [iter]
    split
    · exact h
    · exact ih _ (inG_join_l h)

theorem iter_fix (f : AState → AState) (n : Nat) (I : AState) (h : (f I).le I = true) :
    iter f n I = I := by
  cases n with
  | zero => rfl
  | succ n => simp [iter, h]

/-- the function whose post-fixpoint is the loop invariant -/
def loopF (body : RStmt) : AState → AState := fun I => (analyse body I).norm.join (analyse body I).brk

def loopInv (body : RStmt) (s : AState) : AState := iter (loopF body) (4 * s.vals.length + 2) s

theorem analyse_loop (body : RStmt) (s : AState) :
    analyse (.loop body) s =
      ⟨(analyse body (loopInv body s)).bad ++
         (if (loopF body (loopInv body s)).le (loopInv body s) then [] else [loopSentinel]),
       loopInv body s, .dead⟩ := by
  simp only [analyse]
  rfl

theorem not_inG_dead (c : Var → RVal) : ¬ InG c AState.dead := by
  intro h; have := h.1; simp [AState.dead] at this

theorem append_nil_split {l1 l2 : List Nat} (h : l1 ++ l2 = []) : l1 = [] ∧ l2 = [] := by
  cases l1 <;> simp_all

theorem mode_cases (m : Mode) : m = .run ∨ m = .brk ∨ m = .ret := by cases m <;> simp

/-- **Soundness of the analysis.**  From a running state described by `a`, if the analysis of
    `st` from `a` reports no sink, every execution leaves the bad-use flag unchanged, and ends in
    a state described by the `norm` (resp. `brk`) component of the result. -/
theorem analyse_sound {st : RStmt} {s s' : CState} (hex : Exec st s s') :
    ∀ (a : AState), s.mode = .run → InG s.env a → (analyse st a).bad = [] →
      s'.badUse = s.badUse ∧
      (s'.mode = .run → InG s'.env (analyse st a).norm) ∧
      (s'.mode = .brk → InG s'.env (analyse st a).brk) := by
  induction hex with
  | skip s =>
    intro a hm hin _
    exact ⟨rfl, fun _ => by simpa [analyse] using hin, fun h => by rw [hm] at h; cases h⟩
  | assign s x e v hv =>
    intro a hm hin _
    refine ⟨rfl, fun _ => ?_, fun h => by rw [hm] at h; cases h⟩
    simp only [analyse, hin.1, if_true]
    exact inG_set hin (evalA_sound s.env a hin e v hv)
  | use s k strict e v hv =>
    intro a hm hin hbad
    refine ⟨?_, fun _ => by simpa [analyse] using hin, fun h => by rw [hm] at h; cases h⟩
    have hmem := evalA_sound s.env a hin e v hv
    have hne := evalC_ne_unbound s.env e v hv
    simp only [analyse, hin.1, Bool.not_true, Bool.false_or] at hbad
    generalize evalA a e = V at hmem hbad
    obtain ⟨v1, v2, v3, v4⟩ := V
    have : isBadFor strict v = false := by
      cases v <;> cases strict <;> simp_all [isBadFor, AVal.mem]
    simp [this]
  | seqRun a' b' s s1 s2 _ hm1 _ iha ihb =>
    intro a hm hin hbad
    simp only [analyse] at hbad ⊢
    obtain ⟨hb1, hb2⟩ := append_nil_split hbad
    obtain ⟨h1, h2, _⟩ := iha a hm hin hb1
    obtain ⟨g1, g2, g3⟩ := ihb _ hm1 (h2 hm1) hb2
    exact ⟨by rw [g1, h1], g2, fun h => inG_join_r (g3 h)⟩
  | seqStop a' b' s s1 _ hm1 iha =>
    intro a hm hin hbad
    simp only [analyse] at hbad ⊢
    obtain ⟨hb1, _⟩ := append_nil_split hbad
    obtain ⟨h1, _, h3⟩ := iha a hm hin hb1
    exact ⟨h1, fun h => absurd h hm1, fun h => inG_join_l (h3 h)⟩
  | iteL a' b' s s1 _ iha =>
    intro a hm hin hbad
    simp only [analyse] at hbad ⊢
    obtain ⟨hb1, _⟩ := append_nil_split hbad
    obtain ⟨h1, h2, h3⟩ := iha a hm hin hb1
    exact ⟨h1, fun h => inG_join_l (h2 h), fun h => inG_join_l (h3 h)⟩
  | iteR a' b' s s1 _ ihb =>
    intro a hm hin hbad
    simp only [analyse] at hbad ⊢
    obtain ⟨_, hb2⟩ := append_nil_split hbad
    obtain ⟨h1, h2, h3⟩ := ihb a hm hin hb2
    exact ⟨h1, fun h => inG_join_r (h2 h), fun h => inG_join_r (h3 h)⟩
  | noneT x a' b' s s1 hx _ iha =>
    intro a hm hin hbad
    simp only [analyse, hin.1, if_true] at hbad ⊢
    obtain ⟨hb1, _⟩ := append_nil_split hbad
    have hr := inG_refine (x := x) (keep := ⟨false, false, false, true⟩) hin
      (by rw [hx]; rfl) (by rw [hx]; simp)
    obtain ⟨h1, h2, h3⟩ := iha _ hm hr hb1
    exact ⟨h1, fun h => inG_join_l (h2 h), fun h => inG_join_l (h3 h)⟩
  | noneF x a' b' s s1 hx _ ihb =>
    intro a hm hin hbad
    simp only [analyse, hin.1, if_true] at hbad ⊢
    obtain ⟨_, hb2⟩ := append_nil_split hbad
    have hr := inG_refine (x := x) (keep := ⟨true, true, true, false⟩) hin
      (by rcases hx with h | h | h <;> rw [h] <;> rfl) (by rcases hx with h | h | h <;> rw [h] <;> simp)
    obtain ⟨h1, h2, h3⟩ := ihb _ hm hr hb2
    exact ⟨h1, fun h => inG_join_r (h2 h), fun h => inG_join_r (h3 h)⟩
  | truthyT x a' b' s s1 hx _ iha =>
    intro a hm hin hbad
    simp only [analyse, hin.1, if_true] at hbad ⊢
    obtain ⟨hb1, _⟩ := append_nil_split hbad
    have hr := inG_refine (x := x) (keep := ⟨true, false, true, false⟩) hin
      (by rcases hx with h | h <;> rw [h] <;> rfl) (by rcases hx with h | h <;> rw [h] <;> simp)
    obtain ⟨h1, h2, h3⟩ := iha _ hm hr hb1
    exact ⟨h1, fun h => inG_join_l (h2 h), fun h => inG_join_l (h3 h)⟩
  | truthyF x a' b' s s1 hx _ ihb =>
    intro a hm hin hbad
    simp only [analyse, hin.1, if_true] at hbad ⊢
    obtain ⟨_, hb2⟩ := append_nil_split hbad
    have hr := inG_refine (x := x) (keep := ⟨false, true, true, true⟩) hin
      (by rcases hx with h | h | h <;> rw [h] <;> rfl) (by rcases hx with h | h | h <;> rw [h] <;> simp)
    obtain ⟨h1, h2, h3⟩ := ihb _ hm hr hb2
    exact ⟨h1, fun h => inG_join_r (h2 h), fun h => inG_join_r (h3 h)⟩
  | loopExit b' s =>
    intro a hm hin _
    rw [analyse_loop]
    exact ⟨rfl, fun _ => inG_iter _ _ _ hin, fun h => by rw [hm] at h; cases h⟩
  | loopIter b' s s1 s2 _ hnr _ ihb ihl =>
    intro a hm hin hbad
    rw [analyse_loop] at hbad ⊢
    obtain ⟨hb1, hchk⟩ := append_nil_split hbad
    have hle : (loopF b' (loopInv b' a)).le (loopInv b' a) = true := by
      by_cases h : (loopF b' (loopInv b' a)).le (loopInv b' a) = true
      · exact h
      · simp [h] at hchk
    have hinI : InG s.env (loopInv b' a) := inG_iter _ _ _ hin
    obtain ⟨h1, h2, h3⟩ := ihb _ hm hinI hb1
    have hin1 : InG s1.env (loopInv b' a) := by
      apply inG_le hle
      rcases mode_cases s1.mode with h | h | h
      · exact inG_join_l (h2 h)
      · exact inG_join_r (h3 h)
      · exact absurd h hnr
    -- the loop analysed from its own invariant returns the same invariant
    have hfix : loopInv b' (loopInv b' a) = loopInv b' a := iter_fix _ _ _ hle
    have hbadI : (analyse (.loop b') (loopInv b' a)).bad = [] := by
      rw [analyse_loop, hfix, hb1, hle]; rfl
    obtain ⟨g1, g2, g3⟩ := ihl (loopInv b' a) rfl hin1 hbadI
    rw [analyse_loop, hfix] at g2 g3
    exact ⟨by rw [g1]; exact h1, g2, g3⟩
  | loopRet b' s s1 _ hret ihb =>
    intro a hm hin hbad
    rw [analyse_loop] at hbad ⊢
    obtain ⟨hb1, _⟩ := append_nil_split hbad
    have hinI : InG s.env (loopInv b' a) := inG_iter _ _ _ hin
    obtain ⟨h1, _, _⟩ := ihb _ hm hinI hb1
    exact ⟨h1, fun h => (by rw [hret] at h; cases h), fun h => (by rw [hret] at h; cases h)⟩
  | brk s =>
    intro a hm hin _
    exact ⟨rfl, fun h => (by cases h), fun _ => (by simpa [analyse] using hin)⟩
  | ret s =>
    intro a hm hin _
    exact ⟨rfl, fun h => (by cases h), fun h => (by cases h)⟩

/-- **No bad use.**  A skeleton accepted by the check never passes a value that is not derived
    from the seed to a sink, in any execution started with an integer seed in variable 0 (zero or
    not), seeded generator attributes, and every other variable unbound. -/
theorem skeleton_ok_sound (k : Skeleton) (hok : k.ok = true) (c : Var → RVal)
    (hc : InG c (initState k.nvars k.attrs)) (s' : CState)
    (hex : Exec k.body ⟨c, .run, false⟩ s') : s'.badUse = false := by
  have hbad : (analyse k.body (initState k.nvars k.attrs)).bad = [] := by
    unfold Skeleton.ok Skeleton.badSinks at hok
    exact List.isEmpty_iff.1 hok
  exact (analyse_sound hex _ rfl hc hbad).1

end Cotengra.RFlow
