import CotengraVerif.Lemmas.StripLemmas

/-!
  Exactness of `add_maybe_exponent_stripped`, of its `functools.reduce` over slices and of the
  chunk rescaling of `gather_slices`, over any linearly ordered field, in the factor domain
  (`value = factor · mantissa`).
-/
namespace Cotengra.Strip

set_option linter.unusedSectionVars false

variable {α : Type} [Field α] [LinearOrder α] [IsStrictOrderedRing α]

theorem scale_addT (c : α) (x y : Tensor α) : scale c (addT x y) = addT (scale c x) (scale c y) := by
  unfold scale addT
  simp only [Tensor.mk.injEq, true_and]
  rw [List.map_zipWith]
  rw [List.zipWith_map]
  congr 1
  funext a b
  ring

/-- **add_stripped_exact**: the pair returned by `add_maybe_exponent_stripped` denotes the sum of
    the two operands' values (both factors positive: finite exponents) -/
theorem addStripped_val (x y : Stripped α) (hx : 0 < x.f) (hy : 0 < y.f) :
    (addStripped x y).val = addT x.val y.val := by
  have hF : (max x.f y.f) ≠ 0 := ne_of_gt (lt_max_of_lt_left hx)
  unfold addStripped Stripped.val
  simp only
  rw [scale_addT, scale_scale, scale_scale]
  congr 2
  · field_simp
  · field_simp

theorem addStripped_pos (x y : Stripped α) (hx : 0 < x.f) : 0 < (addStripped x y).f :=
  lt_max_of_lt_left hx

/-- **sum over slices**: `functools.reduce(add_maybe_exponent_stripped, slices)` denotes the sum of
    the slices' values -/
theorem sumStripped_val : ∀ (xs : List (Stripped α)) (acc : Stripped α), 0 < acc.f →
    (∀ x ∈ xs, 0 < x.f) →
    (sumStripped acc xs).val = xs.foldl (fun t x => addT t x.val) acc.val ∧ 0 < (sumStripped acc xs).f := by
  intro xs
  induction xs with
  | nil => intro acc h _; exact ⟨rfl, h⟩
  | cons x rest ih =>
    intro acc hacc hxs
    have hx : 0 < x.f := hxs x List.mem_cons_self
    simp only [sumStripped, List.foldl_cons]
    have := ih (addStripped acc x) (addStripped_pos acc x hacc)
      (fun y hy => hxs y (List.mem_cons_of_mem _ hy))
    rw [addStripped_val acc x hacc hx] at this
    exact this

theorem foldl_max_ge (cs : List (Stripped α)) (m : α) : m ≤ cs.foldl (fun m x => max m x.f) m := by
  induction cs generalizing m with
  | nil => exact le_refl _
  | cons x xs ih => exact le_trans (le_max_left _ _) (ih _)

/-- **gather_stripped_exact**: after the rescaling to the largest factor every chunk, multiplied by
    the returned common factor, is the chunk's value; the common factor is positive -/
theorem rescaleChunks_val (chunks : List (Stripped α)) (hpos : ∀ c ∈ chunks, 0 < c.f) :
    (rescaleChunks chunks).1.map (scale (rescaleChunks chunks).2) = chunks.map Stripped.val ∧
      (chunks ≠ [] → 0 < (rescaleChunks chunks).2) := by
  cases chunks with
  | nil => simp [rescaleChunks]
  | cons c cs =>
    have hF : 0 < cs.foldl (fun m x => max m x.f) c.f :=
      lt_of_lt_of_le (hpos c List.mem_cons_self) (foldl_max_ge cs c.f)
    refine ⟨?_, fun _ => hF⟩
    simp only [rescaleChunks, List.map_map]
    apply List.map_congr_left
    intro x _
    simp only [Function.comp, Stripped.val, scale_scale]
    congr 1
    field_simp

end Cotengra.Strip
