import CotengraVerif.Lemmas.SimsProc

/-!
  The processor's leaf legs (path_basic.py:391-420 initial legs, `remove_ix`, `compute_simplified`
  :31-53) hold the same counts as the tree's leaf legs (`compute_leaf_legs`, core.py:743-760), for
  every term — repeated, traced and dangling indices included.
-/
namespace Cotengra
namespace Proc
open Legs

/-- sorted by index number, equal numbers adjacent -/
def SortedLE (l : PLegs) : Prop := l.Pairwise (fun a b => a.1 ≤ b.1)

theorem total_cons (k v : Nat) (t : PLegs) (y : Nat) :
    total ((k, v) :: t) y = (if k = y then v else 0) + total t y := by
  simp [total]

theorem insertLeg_total (x : Nat × Nat) (l : PLegs) (y : Nat) :
    total (insertLeg x l) y = (if x.1 = y then x.2 else 0) + total l y := by
  induction l with
  | nil => simp [insertLeg, total]
  | cons a t ih =>
    unfold insertLeg
    split
    · obtain ⟨k, v⟩ := x; rw [total_cons]
    · obtain ⟨k', v'⟩ := a
      rw [total_cons, ih, total_cons]; omega

theorem insertLeg_mem (x : Nat × Nat) (l : PLegs) (y : Nat × Nat) :
    y ∈ insertLeg x l ↔ (y = x ∨ y ∈ l) := by
  induction l with
  | nil => simp [insertLeg]
  | cons a t ih =>
    unfold insertLeg
    split
    · simp
    · simp only [List.mem_cons, ih]
      constructor
      · rintro (h | h | h)
        · exact Or.inr (Or.inl h)
        · exact Or.inl h
        · exact Or.inr (Or.inr h)
      · rintro (h | h | h)
        · exact Or.inr (Or.inl h)
        · exact Or.inl h
        · exact Or.inr (Or.inr h)

theorem insertLeg_sorted (x : Nat × Nat) (l : PLegs) (h : SortedLE l) : SortedLE (insertLeg x l) := by
  induction l with
  | nil => simp [insertLeg, SortedLE]
  | cons a t ih =>
    have ht : SortedLE t := (List.pairwise_cons.1 h).2
    have ha : ∀ b ∈ t, a.1 ≤ b.1 := (List.pairwise_cons.1 h).1
    unfold insertLeg
    split
    · rename_i hlt
      apply List.pairwise_cons.2
      refine ⟨?_, h⟩
      intro b hb
      have hxa : x.1 ≤ a.1 := by rcases hlt with h1 | h1 <;> omega
      rcases List.mem_cons.1 hb with e | e
      · subst e; exact hxa
      · exact Nat.le_trans hxa (ha b e)
    · rename_i hnl
      apply List.pairwise_cons.2
      refine ⟨?_, ih ht⟩
      intro b hb
      rcases (insertLeg_mem x t b).1 hb with e | e
      · subst e
        by_contra hc
        exact hnl (Or.inl (by omega))
      · exact ha b e

theorem initLegs_spec (term : List Ix) :
    SortedLE (initLegs term) ∧ Pos (initLegs term) ∧ ∀ y, total (initLegs term) y = term.count y := by
  unfold initLegs
  have : ∀ (acc : PLegs), SortedLE acc → Pos acc →
      SortedLE (term.foldl (fun acc ix => insertLeg (ix, 1) acc) acc) ∧
      Pos (term.foldl (fun acc ix => insertLeg (ix, 1) acc) acc) ∧
      ∀ y, total (term.foldl (fun acc ix => insertLeg (ix, 1) acc) acc) y = total acc y + term.count y := by
    induction term with
    | nil => intro acc h1 h2; exact ⟨h1, h2, fun y => by simp⟩
    | cons a t ih =>
      intro acc h1 h2
      simp only [List.foldl_cons]
      have hp : Pos (insertLeg (a, 1) acc) := by
        intro kv hkv
        rcases (insertLeg_mem _ _ _).1 hkv with e | e
        · subst e; exact Nat.one_pos
        · exact h2 kv e
      obtain ⟨r1, r2, r3⟩ := ih (insertLeg (a, 1) acc) (insertLeg_sorted _ _ h1) hp
      refine ⟨r1, r2, ?_⟩
      intro y
      rw [r3 y, insertLeg_total, List.count_cons]
      by_cases hay : a = y
      · subst hay
        simp only [if_true, beq_self_eq_true]
        omega
      · have : (a == y) = false := by simpa using hay
        simp only [hay, if_false, this, Bool.false_eq_true]
        omega
  obtain ⟨h1, h2, h3⟩ := this [] (by simp [SortedLE]) (fun _ h => by cases h)
  exact ⟨h1, h2, fun y => by rw [h3 y]; simp [total]⟩

theorem total_filter_key (l : PLegs) (p : Nat → Bool) (y : Nat) :
    total (l.filter (fun kv => p kv.1)) y = if p y then total l y else 0 := by
  induction l with
  | nil => simp [total]
  | cons a t ih =>
    obtain ⟨k, v⟩ := a
    by_cases hp : p k = true
    · rw [List.filter_cons]
      simp only [hp, if_true]
      rw [total_cons, total_cons, ih]
      by_cases hk : k = y
      · subst hk; simp [hp]
      · simp only [hk, if_false]
        split <;> simp
    · have hp' : p k = false := by simpa using hp
      rw [List.filter_cons]
      simp only [hp', Bool.false_eq_true, if_false]
      rw [ih, total_cons]
      by_cases hk : k = y
      · subst hk; simp [hp']
      · simp only [hk, if_false, Nat.zero_add]

theorem total_eq_zero_of_lt (l : PLegs) (x : Nat) (h : ∀ b ∈ l, x < b.1) : total l x = 0 := by
  induction l with
  | nil => rfl
  | cons a t ih =>
    obtain ⟨k, v⟩ := a
    have hk : ¬ k = x := by
      have := h (k, v) List.mem_cons_self
      intro e; subst e; exact Nat.lt_irrefl _ this
    rw [total_cons, if_neg hk, ih (fun b hb => h b (List.mem_cons_of_mem _ hb))]

/-- an index is kept with its total count unless that count reaches its number of appearances -/
def keepSpec (app : Nat → Nat) (tot y : Nat) : Nat := if tot = app y ∨ tot = 0 then 0 else tot

/-- the loop of `compute_simplified` with the pending `(cur, cnt)`: counts, lower bound on the
    keys, strict sortedness, positivity -/
theorem simplifiedAux_spec (app : Nat → Nat) (l : PLegs) (cur cnt : Nat) (hs : SortedLE l)
    (hlb : ∀ b ∈ l, cur ≤ b.1) (hp : Pos l) (hc : 0 < cnt) :
    (∀ y, Legs.get (simplifiedAux app cur cnt l) y =
      keepSpec app ((if cur = y then cnt else 0) + total l y) y) ∧
    (∀ b ∈ simplifiedAux app cur cnt l, cur ≤ b.1) ∧ Sorted (simplifiedAux app cur cnt l) ∧
    Pos (simplifiedAux app cur cnt l) := by
  induction l generalizing cur cnt with
  | nil =>
    unfold simplifiedAux
    split
    · rename_i hne
      refine ⟨?_, by simp, by simp [Sorted], fun b hb => by simp at hb; subst hb; exact hc⟩
      intro y
      by_cases hy : cur = y
      · subst hy
        have h0 : ¬ cnt = 0 := by omega
        simp [Legs.get, total, keepSpec, hne, h0]
      · simp [Legs.get, total, keepSpec, hy]
    · rename_i hne
      have he : cnt = app cur := by simpa using hne
      refine ⟨?_, by simp, by simp [Sorted], fun b hb => by cases hb⟩
      intro y
      by_cases hy : cur = y
      · subst hy; simp [Legs.get, total, keepSpec, he]
      · simp [Legs.get, total, keepSpec, hy]
  | cons a t ih =>
    obtain ⟨ix, c⟩ := a
    have hst : SortedLE t := (List.pairwise_cons.1 hs).2
    have hat : ∀ b ∈ t, ix ≤ b.1 := (List.pairwise_cons.1 hs).1
    have hpt : Pos t := fun b hb => hp b (List.mem_cons_of_mem _ hb)
    have hcpos : 0 < c := hp (ix, c) List.mem_cons_self
    have hcur : cur ≤ ix := hlb (ix, c) List.mem_cons_self
    unfold simplifiedAux
    split
    · -- same index: accumulate
      rename_i he
      subst he
      obtain ⟨g, lb, so, po⟩ := ih ix (cnt + c) hst hat hpt (by omega)
      refine ⟨?_, lb, so, po⟩
      intro y
      rw [g y, total_cons]
      by_cases hy : ix = y
      · subst hy
        simp only [if_true]
        rw [Nat.add_assoc]
      · simp only [hy, if_false, Nat.zero_add]
    · rename_i hne
      have hlt : cur < ix := by omega
      obtain ⟨g, lb, so, po⟩ := ih ix c hst hat hpt hcpos
      have htot0 : total ((ix, c) :: t) cur = 0 := by
        apply total_eq_zero_of_lt
        intro b hb
        rcases List.mem_cons.1 hb with e | e
        · subst e; exact hlt
        · exact Nat.lt_of_lt_of_le hlt (hat b e)
      split
      · -- flush the pending index
        rename_i hk
        refine ⟨?_, ?_, ?_, ?_⟩
        · intro y
          by_cases hy : cur = y
          · subst hy
            have h0 : ¬ cnt = 0 := by omega
            rw [get_cons_self, htot0]
            simp [keepSpec, hk, h0]
          · rw [get_cons_ne _ _ _ _ hy, g y, total_cons]
            simp only [hy, if_false, Nat.zero_add]
        · intro b hb
          rcases List.mem_cons.1 hb with e | e
          · subst e; exact Nat.le_refl _
          · exact Nat.le_of_lt (Nat.lt_of_lt_of_le hlt (lb b e))
        · apply List.pairwise_cons.2
          exact ⟨fun b hb => Nat.lt_of_lt_of_le hlt (lb b hb), so⟩
        · intro b hb
          rcases List.mem_cons.1 hb with e | e
          · subst e; exact hc
          · exact po b e
      · -- the pending index was reduced: drop it
        rename_i hk
        have hk' : cnt = app cur := by simpa using hk
        refine ⟨?_, fun b hb => Nat.le_of_lt (Nat.lt_of_lt_of_le hlt (lb b hb)), so, po⟩
        intro y
        rw [g y]
        by_cases hy : cur = y
        · subst hy
          have hix : ¬ ix = cur := by omega
          rw [htot0]
          have ht0 : total t cur = 0 := by
            have := htot0; rw [total_cons, if_neg hix] at this; omega
          simp [keepSpec, hix, ht0, hk']
        · simp only [hy, if_false, total_cons, Nat.zero_add]

theorem simplified_spec (app : Nat → Nat) (l : PLegs) (hs : SortedLE l) (hp : Pos l) :
    (∀ y, Legs.get (simplified app l) y = if total l y = app y then 0 else total l y) ∧
    Sorted (simplified app l) ∧ Pos (simplified app l) := by
  cases l with
  | nil =>
    refine ⟨fun y => by simp [simplified, Legs.get, total], by simp [simplified, Sorted], fun b hb => by cases hb⟩
  | cons a t =>
    obtain ⟨ix, c⟩ := a
    have hst : SortedLE t := (List.pairwise_cons.1 hs).2
    have hat : ∀ b ∈ t, ix ≤ b.1 := (List.pairwise_cons.1 hs).1
    obtain ⟨g, _, so, po⟩ := simplifiedAux_spec app t ix c hst hat
      (fun b hb => hp b (List.mem_cons_of_mem _ hb)) (hp (ix, c) List.mem_cons_self)
    refine ⟨?_, so, po⟩
    intro y
    show Legs.get (simplifiedAux app ix c t) y = _
    rw [g y, total_cons]
    unfold keepSpec
    by_cases h1 : (if ix = y then c else 0) + total t y = app y
    · simp [h1]
    · by_cases h0 : (if ix = y then c else 0) + total t y = 0
      · rw [h0]; simp
      · rw [if_neg (not_or.2 ⟨h1, h0⟩), if_neg h1]

end Proc
end Cotengra
