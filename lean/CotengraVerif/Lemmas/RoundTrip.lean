import CotengraVerif.Lemmas.PathInverse
import CotengraVerif.Lemmas.TreeNodes
import Mathlib.Tactic.Tauto

/-!
  tree → path → tree: `get_path` is `ssa_to_linear` of `get_ssa_path`; a children-first
  traversal can be executed from the leaves (`Ready`); `from_path(ssa_path=get_ssa_path())`
  re-creates exactly the nodes of the traversal.
-/
namespace Cotengra.Paths
open Cotengra

/-! ### get_path = ssa_to_linear ∘ get_ssa_path -/

theorem sortAsc_pair_map (f : Nat → Nat) (a b : Nat) :
    sortAsc ((sortAsc [a, b]).map f) = sortAsc [f a, f b] :=
  sortAsc_of_perm ((sortAsc_perm [a, b]).map f)

theorem getPathLoop_eq (todo : List BT) (tab : List (BT × Nat)) (ssas : List Nat) (ssa : Nat) :
    getPathLoop tab ssas ssa todo = (getSsaPathLoop tab ssa todo).bind (ssaToLinearLoop ssas ssa) := by
  induction todo generalizing tab ssas ssa with
  | nil => simp [getPathLoop, getSsaPathLoop, ssaToLinearLoop]
  | cons x rest ih =>
    cases x with
    | leaf i => simp [getPathLoop, getSsaPathLoop]
    | node l r =>
      unfold getPathLoop getSsaPathLoop
      cases ha : nodeId tab l with
      | none => simp
      | some a =>
        cases hb : nodeId tab r with
        | none => simp
        | some b =>
          simp only
          cases hp : popMany ssas (sortAsc [bisectLeft ssas a, bisectLeft ssas b]).reverse with
          | none =>
            cases getSsaPathLoop ((BT.node l r, ssa) :: tab) (ssa + 1) rest <;>
              simp [ssaToLinearLoop, sortAsc_pair_map, hp]
          | some p =>
            simp only
            rw [ih]
            cases hrec : getSsaPathLoop ((BT.node l r, ssa) :: tab) (ssa + 1) rest with
            | none => simp
            | some out =>
              simp only [Option.bind_some, ssaToLinearLoop, sortAsc_pair_map, hp]
              cases ssaToLinearLoop (p.2 ++ [ssa]) (ssa + 1) out <;> rfl

theorem getPath_eq (n : Nat) (seq : List BT) :
    getPath n seq = (getSsaPath n seq).bind (ssaToLinear n) :=
  getPathLoop_eq seq [] (List.range n) n

/-! ### executing a traversal from the leaves -/

def kids : BT → List BT
  | .leaf _ => []
  | .node l r => [l, r]

/-- `seq` can be executed starting from the available nodes `avail`: both children of the next
    node are available and distinct; they are consumed, the node becomes available -/
def Ready : List BT → List BT → Prop
  | _, [] => True
  | avail, .node l r :: rest =>
    l ∈ avail ∧ r ∈ avail ∧ l ≠ r ∧
      Ready ((avail.filter (· != l)).filter (· != r) ++ [.node l r]) rest
  | _, .leaf _ :: _ => False

theorem kids_flatMap_perm (t : BT) : (t.internal.flatMap kids ++ [t]).Perm (allNodes t) := by
  induction t with
  | leaf i => simp [BT.internal, allNodes]
  | node l r ihl ihr =>
    simp only [BT.internal, allNodes, List.flatMap_append, List.flatMap_cons, List.flatMap_nil,
      List.append_nil, kids, List.append_assoc]
    have h1 : (l.internal.flatMap kids ++ (r.internal.flatMap kids ++ [l, r])).Perm
        ((l.internal.flatMap kids ++ [l]) ++ (r.internal.flatMap kids ++ [r])) := by
      rw [List.append_assoc]
      refine List.Perm.append_left _ ?_
      exact List.perm_middle
    have h2 := List.Perm.append_right [BT.node l r] (h1.trans (List.Perm.append ihl ihr))
    simpa [List.append_assoc] using h2

theorem kids_nodup (t : BT) (hn : t.leaves.Nodup) : (t.internal.flatMap kids).Nodup := by
  have := (kids_flatMap_perm t).nodup_iff.2 (allNodes_nodup t hn)
  exact (List.nodup_append.1 this).1

theorem mem_kids_ichildren (x c : BT) (h : c ∈ kids x) : isLeaf c = true ∨ c ∈ ichildren x := by
  cases x with
  | leaf i => simp [kids] at h
  | node l r =>
    simp only [kids, List.mem_cons, List.not_mem_nil, or_false] at h
    rcases h with rfl | rfl
    · cases c with
      | leaf i => exact Or.inl rfl
      | node a b => exact Or.inr (by simp [ichildren])
    · cases c with
      | leaf i => exact Or.inl rfl
      | node a b => exact Or.inr (by cases l <;> simp [ichildren])

theorem ready_of (todo : List BT) : ∀ (avail : List BT), todo.Nodup →
    (todo.flatMap kids).Nodup → (∀ x ∈ todo, isLeaf x = false) → (∀ x ∈ todo, x ∉ avail) →
    (∀ x ∈ todo, ∀ c ∈ kids x, c ∈ avail ∨ [c, x].Sublist todo) → Ready avail todo := by
  induction todo with
  | nil => intro _ _ _ _ _ _; trivial
  | cons x rest ih =>
    intro avail hnd hk hint hfresh hch
    cases x with
    | leaf i => have := hint _ List.mem_cons_self; simp [isLeaf] at this
    | node l r =>
      have hnd' := List.nodup_cons.1 hnd
      simp only [List.flatMap_cons, kids] at hk
      have hk' := List.nodup_append.1 hk
      have hlr : l ≠ r := by
        have := hk'.1
        simp only [List.nodup_cons, List.mem_singleton] at this
        exact this.1
      -- a child of the head node is available: it cannot come later in the sequence
      have havail : ∀ c ∈ kids (BT.node l r), c ∈ avail := by
        intro c hc
        rcases hch _ List.mem_cons_self c hc with h | h
        · exact h
        · exfalso
          -- [c, x] <+ x :: rest forces x ∈ rest
          have : BT.node l r ∈ rest := by
            cases h with
            | cons _ h' => exact (h'.subset (by simp))
            | cons_cons _ h' => exact (h'.subset (by simp))
          exact hnd'.1 this
      refine ⟨havail l (by simp [kids]), havail r (by simp [kids]), hlr, ?_⟩
      apply ih _ hnd'.2 hk'.2.1 (fun y hy => hint y (List.mem_cons_of_mem _ hy))
      · intro y hy hm
        rcases List.mem_append.1 hm with hm | hm
        · exact hfresh y (List.mem_cons_of_mem _ hy) (List.mem_filter.1 (List.mem_filter.1 hm).1).1
        · simp only [List.mem_singleton] at hm
          exact hnd'.1 (hm ▸ hy)
      · intro y hy c hc
        have hcne : ∀ z ∈ [l, r], c ≠ z := by
          intro z hz e
          exact hk'.2.2 z hz c (List.mem_flatMap.2 ⟨y, hy, hc⟩) e.symm
        rcases hch y (List.mem_cons_of_mem _ hy) c hc with h | h
        · left
          refine List.mem_append_left _ (List.mem_filter.2 ⟨List.mem_filter.2 ⟨h, ?_⟩, ?_⟩)
          · simpa using hcne l (by simp)
          · simpa using hcne r (by simp)
        · cases h with
          | cons _ h' => exact Or.inr h'
          | cons_cons _ h' =>
            left
            exact List.mem_append_right _ (by simp)

theorem leaf_not_mem_internal (t : BT) (i : Nat) : BT.leaf i ∉ t.internal := by
  induction t with
  | leaf j => simp [BT.internal]
  | node a b iha ihb => simp [BT.internal, iha, ihb]

/-- a children-first traversal of `t` can be executed from any duplicate-free stock containing
    the leaves of `t` -/
theorem ready_of_childrenFirst (t : BT) (hn : t.leaves.Nodup) (seq : List BT)
    (hperm : seq.Perm t.internal)
    (hcf : ∀ x ∈ seq, ∀ c ∈ ichildren x, [c, x].Sublist seq)
    (avail : List BT) (hav : ∀ i ∈ t.leaves, BT.leaf i ∈ avail)
    (hal : ∀ x ∈ avail, isLeaf x = true) : Ready avail seq := by
  have hint : ∀ x ∈ seq, isLeaf x = false := by
    intro x hx
    have := hperm.mem_iff.1 hx
    cases x with
    | leaf i => exact absurd this (leaf_not_mem_internal t i)
    | node a b => rfl
  apply ready_of seq avail (hperm.nodup_iff.2 (internal_nodup t hn))
    ((List.Perm.flatMap_right kids hperm).nodup_iff.2 (kids_nodup t hn)) hint
  · intro x hx hm
    have := hal x hm
    rw [hint x hx] at this
    cases this
  · intro x hx c hc
    rcases mem_kids_ichildren x c hc with h | h
    · left
      cases c with
      | node a b => simp [isLeaf] at h
      | leaf i =>
        apply hav
        -- the leaf i lies below x, which is a node of t
        have hxt : x ∈ allNodes t := (internal_sublist_allNodes t).subset (hperm.mem_iff.1 hx)
        have hsub := (mem_allNodes t x hxt).1
        apply hsub
        cases x with
        | leaf j => simp [kids] at hc
        | node l r =>
          simp only [kids, List.mem_cons, List.not_mem_nil, or_false] at hc
          rcases hc with rfl | rfl <;> simp [BT.leaves]
    · exact Or.inr (hcf x hx c h)

end Cotengra.Paths

namespace Cotengra.Paths
open Cotengra

/-! ### `from_path(ssa_path=get_ssa_path(...))` -/

/-- a node as the tree stores it: the sorted list of its leaves -/
def key (x : BT) : List Nat := sortAsc x.leaves

def idT (tab : List (BT × Nat)) (x : BT) : Nat := (nodeId tab x).getD 0

def gOf (tab : List (BT × Nat)) (x : BT) : Nat × List Nat := (idT tab x, key x)

theorem inj_of_nodup_map {α : Type _} (f : α → Nat) (l : List α) (h : (l.map f).Nodup) (a b : α)
    (ha : a ∈ l) (hb : b ∈ l) (he : f a = f b) : a = b :=
  List.inj_on_of_nodup_map h ha hb he

theorem dictPop_map (tab : List (BT × Nat)) (avail : List BT)
    (hinj : (avail.map (idT tab)).Nodup) (z : BT) (hz : z ∈ avail) :
    dictPop (avail.map (gOf tab)) (idT tab z) =
      some (key z, (avail.filter (· != z)).map (gOf tab)) := by
  have hlook : ∀ (l : List BT), (∀ y ∈ l, y ∈ avail) → z ∈ l →
      (l.map (gOf tab)).lookup (idT tab z) = some (key z) := by
    intro l
    induction l with
    | nil => intro _ h; simp at h
    | cons y t ih =>
      intro hsub hzl
      simp only [List.map_cons, gOf, List.lookup]
      by_cases he : idT tab z = idT tab y
      · have : z = y := inj_of_nodup_map _ _ hinj z y hz (hsub y List.mem_cons_self) he
        subst this
        simp
      · have hb : (idT tab z == idT tab y) = false := by simpa using he
        simp only [hb]
        have hzt : z ∈ t := by
          rcases List.mem_cons.1 hzl with e | h
          · exact absurd (by rw [e]) he
          · exact h
        exact ih (fun y hy => hsub y (List.mem_cons_of_mem _ hy)) hzt
  have hfilt : (avail.map (gOf tab)).filter (fun kv => kv.1 != idT tab z) =
      (avail.filter (· != z)).map (gOf tab) := by
    rw [List.filter_map]
    congr 1
    apply List.filter_congr
    intro y hy
    simp only [Function.comp, gOf]
    by_cases he : y = z
    · subst he; simp
    · have : idT tab y ≠ idT tab z := fun e => he (inj_of_nodup_map _ _ hinj y z hy hz e)
      have h1 : (idT tab y != idT tab z) = true := bne_iff_ne.2 this
      have h2 : (y != z) = true := bne_iff_ne.2 he
      rw [h1, h2]
  unfold dictPop
  rw [hlook avail (fun _ h => h) hz, hfilt]

theorem nodup_map_filter {α : Type _} (f : α → Nat) (l : List α) (p : α → Bool)
    (h : (l.map f).Nodup) : ((l.filter p).map f).Nodup :=
  List.Nodup.sublist (List.Sublist.map f List.filter_sublist) h

theorem pop_two (tab : List (BT × Nat)) (avail : List BT) (hinj : (avail.map (idT tab)).Nodup)
    (z1 z2 : BT) (h1 : z1 ∈ avail) (h2 : z2 ∈ avail) (hne : z1 ≠ z2) :
    dictPopMany (avail.map (gOf tab)) [idT tab z1, idT tab z2] =
      some ([key z1, key z2], ((avail.filter (· != z1)).filter (· != z2)).map (gOf tab)) := by
  have h2' : z2 ∈ avail.filter (· != z1) :=
    List.mem_filter.2 ⟨h2, by simpa using fun e => hne e.symm⟩
  simp only [dictPopMany, dictPop_map tab avail hinj z1 h1,
    dictPop_map tab _ (nodup_map_filter _ _ _ hinj) z2 h2']

theorem sortAsc_pair (a b : Nat) : sortAsc [a, b] = if a ≤ b then [a, b] else [b, a] := by
  simp only [sortAsc, List.foldr_cons, List.foldr_nil, insertAsc]

theorem nodeId_cons_ne (tab : List (BT × Nat)) (x y : BT) (s : Nat) (h : y ≠ x) :
    nodeId ((x, s) :: tab) y = nodeId tab y := by
  cases y with
  | leaf i => rfl
  | node a b =>
    have : (BT.node a b == x) = false := by simpa using h
    simp [nodeId, List.lookup, this]

theorem nodeId_cons_self (tab : List (BT × Nat)) (l r : BT) (s : Nat) :
    nodeId ((BT.node l r, s) :: tab) (BT.node l r) = some s := by
  simp [nodeId, List.lookup]

theorem key_node (l r : BT) (z1 z2 : BT) (h : (z1 = l ∧ z2 = r) ∨ (z1 = r ∧ z2 = l)) :
    sortAsc (key z1 ++ key z2) = key (BT.node l r) := by
  unfold key
  apply sortAsc_of_perm
  simp only [BT.leaves]
  rcases h with ⟨rfl, rfl⟩ | ⟨rfl, rfl⟩
  · exact List.Perm.append (sortAsc_perm _) (sortAsc_perm _)
  · exact (List.Perm.append (sortAsc_perm _) (sortAsc_perm _)).trans List.perm_append_comm

theorem ssa_from (todo : List BT) : ∀ (avail : List BT) (tab : List (BT × Nat)) (ssa : Nat),
    Ready avail todo → todo.Nodup → (∀ x ∈ todo, x ∉ avail) →
    (∀ x ∈ avail, (nodeId tab x).isSome = true) →
    (avail.map (idT tab)).Pairwise (· < ·) → (∀ x ∈ avail, idT tab x < ssa) →
    ∃ path, getSsaPathLoop tab ssa todo = some path ∧ ValidSsa (avail.map (idT tab)) ssa path ∧
      ∃ left, fromSsaLoop (avail.map (gOf tab)) ssa path = some (todo.map key, left) := by
  induction todo with
  | nil =>
    intro avail tab ssa _ _ _ _ _ _
    exact ⟨[], rfl, trivial, _, rfl⟩
  | cons x rest ih =>
    intro avail tab ssa hready hnd hfresh hid hsorted hlt
    cases x with
    | leaf i => exact absurd hready (by simp [Ready])
    | node l r =>
      obtain ⟨hl, hr, hlr, hready'⟩ := hready
      have hnd' := List.nodup_cons.1 hnd
      have hinj : (avail.map (idT tab)).Nodup := hsorted.imp (fun h => by omega)
      have hxav : BT.node l r ∉ avail := hfresh _ List.mem_cons_self
      obtain ⟨a, ha⟩ := Option.isSome_iff_exists.1 (hid l hl)
      obtain ⟨b, hb⟩ := Option.isSome_iff_exists.1 (hid r hr)
      have hia : idT tab l = a := by simp [idT, ha]
      have hib : idT tab r = b := by simp [idT, hb]
      have hab : a ≠ b := by
        intro e
        exact hlr (inj_of_nodup_map _ _ hinj l r hl hr (by rw [hia, hib, e]))
      set tab' := (BT.node l r, ssa) :: tab with htab'
      set F := (avail.filter (· != l)).filter (· != r) with hF
      have hFsub : ∀ y ∈ F, y ∈ avail := fun y hy => (List.mem_filter.1 (List.mem_filter.1 hy).1).1
      have hE1 : ∀ y ∈ avail, idT tab' y = idT tab y := by
        intro y hy
        have : y ≠ BT.node l r := fun e => hxav (e ▸ hy)
        simp [idT, htab', nodeId_cons_ne tab _ y ssa this]
      have hE2 : idT tab' (BT.node l r) = ssa := by simp [idT, htab', nodeId_cons_self]
      have hmapid : (F ++ [BT.node l r]).map (idT tab') = F.map (idT tab) ++ [ssa] := by
        simp only [List.map_append, List.map_cons, List.map_nil, hE2]
        congr 1
        exact List.map_congr_left (fun y hy => hE1 y (hFsub y hy))
      have hmapg : (F ++ [BT.node l r]).map (gOf tab') =
          F.map (gOf tab) ++ [(ssa, key (BT.node l r))] := by
        simp only [List.map_append, List.map_cons, List.map_nil]
        congr 1
        · apply List.map_congr_left
          intro y hy
          simp only [gOf, hE1 y (hFsub y hy)]
        · simp only [gOf, hE2]
      -- induction hypothesis on the rest
      obtain ⟨path', hp1, hp2, left, hp3⟩ := ih (F ++ [BT.node l r]) tab' (ssa + 1) hready' hnd'.2
        (by
          intro y hy hm
          rcases List.mem_append.1 hm with hm | hm
          · exact hfresh y (List.mem_cons_of_mem _ hy) (hFsub y hm)
          · simp only [List.mem_singleton] at hm
            exact hnd'.1 (hm ▸ hy))
        (by
          intro y hy
          rcases List.mem_append.1 hy with hy | hy
          · have : y ≠ BT.node l r := fun e => hxav (e ▸ hFsub y hy)
            rw [htab', nodeId_cons_ne tab _ y ssa this]
            exact hid y (hFsub y hy)
          · simp only [List.mem_singleton] at hy
            subst hy
            rw [htab', nodeId_cons_self]; rfl)
        (by
          rw [hmapid, List.pairwise_append]
          refine ⟨List.Pairwise.sublist
            (List.Sublist.map _ (List.filter_sublist.trans List.filter_sublist)) hsorted, by simp, ?_⟩
          intro i hi j hj
          simp only [List.mem_singleton] at hj
          subst hj
          obtain ⟨y, hy, rfl⟩ := List.mem_map.1 hi
          exact hlt y (hFsub y hy))
        (by
          intro y hy
          rcases List.mem_append.1 hy with hy | hy
          · rw [hE1 y (hFsub y hy)]
            have := hlt y (hFsub y hy); omega
          · simp only [List.mem_singleton] at hy
            subst hy
            rw [hE2]; omega)
      rw [hmapid] at hp2
      rw [hmapg] at hp3
      -- the step
      have hscon_mem : ∀ s, s ∈ sortAsc [a, b] ↔ (s = a ∨ s = b) := by
        intro s
        rw [(sortAsc_perm [a, b]).mem_iff]; simp
      have hFids : F.map (idT tab) =
          (avail.map (idT tab)).filter (fun i => !(sortAsc [a, b]).contains i) := by
        rw [List.filter_map, hF, List.filter_filter]
        congr 1
        apply List.filter_congr
        intro y hy
        simp only [Function.comp]
        have e1 : y = l ↔ idT tab y = a :=
          ⟨fun e => by rw [e, hia], fun e => inj_of_nodup_map _ _ hinj y l hy hl (by rw [e, hia])⟩
        have e2 : y = r ↔ idT tab y = b :=
          ⟨fun e => by rw [e, hib], fun e => inj_of_nodup_map _ _ hinj y r hy hr (by rw [e, hib])⟩
        rw [Bool.eq_iff_iff]
        simp only [Bool.and_eq_true, bne_iff_ne, ne_eq, Bool.not_eq_true', List.contains_eq_mem,
          decide_eq_false_iff_not, hscon_mem, e1, e2]
        tauto
      refine ⟨sortAsc [a, b] :: path', ?_, ?_, ?_⟩
      · rw [htab'] at hp1
        simp only [getSsaPathLoop, ha, hb, hp1]
      · refine ⟨(sortAsc_perm [a, b]).nodup_iff.2 (by simp [hab]), ?_, ?_⟩
        · intro s hs
          rcases (hscon_mem s).1 hs with rfl | rfl
          · rw [← hia]; exact List.mem_map.2 ⟨l, hl, rfl⟩
          · rw [← hib]; exact List.mem_map.2 ⟨r, hr, rfl⟩
        · rw [← hFids]; exact hp2
      · -- from_path pops the two children (in id order), stores their union under the new id
        have hpop : ∃ z1 z2, ((z1 = l ∧ z2 = r) ∨ (z1 = r ∧ z2 = l)) ∧
            dictPopMany (avail.map (gOf tab)) (sortAsc [a, b]) =
              some ([key z1, key z2], F.map (gOf tab)) := by
          rw [sortAsc_pair]
          by_cases hle : a ≤ b
          · refine ⟨l, r, Or.inl ⟨rfl, rfl⟩, ?_⟩
            simp only [hle, if_true]
            rw [← hia, ← hib]
            exact pop_two tab avail hinj l r hl hr hlr
          · refine ⟨r, l, Or.inr ⟨rfl, rfl⟩, ?_⟩
            simp only [hle, if_false]
            rw [← hia, ← hib, hF, List.filter_comm]
            exact pop_two tab avail hinj r l hr hl (fun e => hlr e.symm)
        obtain ⟨z1, z2, hz, hpm⟩ := hpop
        refine ⟨left, ?_⟩
        simp only [fromSsaLoop, hpm, mergeNodes, key_node l r z1 z2 hz, hp3, if_true, List.map_cons]

end Cotengra.Paths
