import CotengraVerif.Lemmas.Gather
import CotengraVerif.Lemmas.Chunks
import Mathlib.Tactic.Set

/-!
  Semantics of slicing: the einsum of the network is the sum, over the values of the sliced
  inner indices, of the einsums of the sliced networks (arrays indexed at the slice key); a
  projected index contributes exactly its chosen value.  Sums are finite list sums over `Int`.
-/
namespace Cotengra.Slicing
open Cotengra

/-! ### list sums -/

theorem sum_map_zero {α : Type _} (l : List α) : (l.map fun _ => (0 : Int)).sum = 0 := by
  induction l with
  | nil => rfl
  | cons a t ih => simp [ih]

theorem sum_map_add {α : Type _} (l : List α) (f g : α → Int) :
    (l.map fun x => f x + g x).sum = (l.map f).sum + (l.map g).sum := by
  induction l with
  | nil => rfl
  | cons a t ih => simp only [List.map_cons, List.sum_cons, ih]; omega

theorem sum_comm {α β : Type _} (l₁ : List α) (l₂ : List β) (F : α → β → Int) :
    (l₁.map fun x => (l₂.map fun y => F x y).sum).sum =
      (l₂.map fun y => (l₁.map fun x => F x y).sum).sum := by
  induction l₁ with
  | nil => simp [sum_map_zero]
  | cons a t ih =>
    simp only [List.map_cons, List.sum_cons, ih]
    rw [← sum_map_add]

theorem sum_flatMap {α β : Type _} (l : List α) (g : α → List β) (f : β → Int) :
    ((l.flatMap g).map f).sum = (l.map fun a => ((g a).map f).sum).sum := by
  induction l with
  | nil => rfl
  | cons a t ih => simp [List.flatMap_cons, List.map_append, List.sum_append, ih]

/-! ### sums over assignments -/

def upd (σ : Ix → Nat) (ix : Ix) (v : Nat) : Ix → Nat := fun j => if j = ix then v else σ j

/-- `Σ` over the listed indices, each running through its list of values, of `f` at the
    assignment `σ` updated with those values -/
def sumOver : List (Ix × List Nat) → ((Ix → Nat) → Int) → (Ix → Nat) → Int
  | [], f, σ => f σ
  | (ix, vals) :: rs, f, σ => (vals.map fun v => sumOver rs f (upd σ ix v)).sum

/-- `σ` overridden by the entries of a key -/
def ov (σ : Ix → Nat) (key : List (Ix × Nat)) : Ix → Nat := fun ix => (keyGet key ix).getD (σ ix)

theorem upd_comm (σ : Ix → Nat) (a b : Ix) (va vb : Nat) (h : a ≠ b) :
    upd (upd σ a va) b vb = upd (upd σ b vb) a va := by
  funext j
  unfold upd
  by_cases h1 : j = a <;> by_cases h2 : j = b
  · exact absurd (h1.symm.trans h2) h
  · subst h1; simp [h]
  · subst h2; simp [Ne.symm h]
  · simp [h1, h2]

theorem sumOver_swap (a b : Ix) (Ra Rb : List Nat) (rs : List (Ix × List Nat))
    (f : (Ix → Nat) → Int) (σ : Ix → Nat) (h : a ≠ b) :
    sumOver ((a, Ra) :: (b, Rb) :: rs) f σ = sumOver ((b, Rb) :: (a, Ra) :: rs) f σ := by
  simp only [sumOver]
  rw [sum_comm]
  congr 1
  apply List.map_congr_left
  intro vb _
  congr 1
  apply List.map_congr_left
  intro va _
  rw [upd_comm σ a b va vb h]

theorem sumOver_perm {R₁ R₂ : List (Ix × List Nat)} (hp : R₁.Perm R₂) (f : (Ix → Nat) → Int) :
    (R₁.map (·.1)).Nodup → ∀ σ, sumOver R₁ f σ = sumOver R₂ f σ := by
  induction hp with
  | nil => intro _ _; rfl
  | cons x _ ih =>
    intro hn σ
    obtain ⟨ix, vals⟩ := x
    simp only [List.map_cons, List.nodup_cons] at hn
    simp only [sumOver]
    congr 1
    apply List.map_congr_left
    intro v _
    exact ih hn.2 _
  | swap x y l =>
    intro hn σ
    obtain ⟨a, Ra⟩ := x
    obtain ⟨b, Rb⟩ := y
    simp only [List.map_cons, List.nodup_cons, List.mem_cons, not_or] at hn
    exact sumOver_swap b a Rb Ra l f σ (fun e => hn.1.1 e)
  | trans h1 _ ih1 ih2 =>
    intro hn σ
    rw [ih1 hn σ]
    exact ih2 (((h1.map (·.1)).nodup_iff).1 hn) σ

theorem sumOver_append (R₁ R₂ : List (Ix × List Nat)) (f : (Ix → Nat) → Int) (σ : Ix → Nat) :
    sumOver (R₁ ++ R₂) f σ = sumOver R₁ (sumOver R₂ f) σ := by
  induction R₁ generalizing σ with
  | nil => rfl
  | cons x t ih =>
    obtain ⟨ix, vals⟩ := x
    simp only [List.cons_append, sumOver]
    congr 1
    apply List.map_congr_left
    intro v _
    exact ih _

theorem sumOver_congr (R : List (Ix × List Nat)) (f g : (Ix → Nat) → Int) (h : ∀ τ, f τ = g τ)
    (σ : Ix → Nat) : sumOver R f σ = sumOver R g σ := by
  have : f = g := funext h
  rw [this]

theorem ov_upd (σ : Ix → Nat) (key : List (Ix × Nat)) (ix : Ix) (v : Nat)
    (h : keyGet key ix = none) : ov (upd σ ix v) key = upd (ov σ key) ix v := by
  funext j
  unfold ov upd
  by_cases hj : j = ix
  · subst hj; simp [h]
  · simp [hj]

/-- indices that the key does not mention can be summed before or after the override -/
theorem sumOver_ov (R : List (Ix × List Nat)) (key : List (Ix × Nat))
    (hd : ∀ p ∈ R, keyGet key p.1 = none) (f : (Ix → Nat) → Int) (σ : Ix → Nat) :
    sumOver R (fun τ => f (ov τ key)) σ = sumOver R f (ov σ key) := by
  induction R generalizing σ with
  | nil => rfl
  | cons x t ih =>
    obtain ⟨ix, vals⟩ := x
    simp only [sumOver]
    congr 1
    apply List.map_congr_left
    intro v _
    rw [ih (fun p hp => hd p (List.mem_cons_of_mem _ hp)), ov_upd _ _ _ _ (hd (ix, vals) List.mem_cons_self)]

theorem keyGet_cons (ix : Ix) (v : Nat) (k : List (Ix × Nat)) (j : Ix) :
    keyGet ((ix, v) :: k) j = if j = ix then some v else keyGet k j := by
  unfold keyGet
  by_cases h : j = ix
  · subst h; simp [List.lookup]
  · have : (j == ix) = false := by simpa using h
    simp [List.lookup, this, h]

theorem keyGet_none_of_not_mem (k : List (Ix × Nat)) (j : Ix) (h : j ∉ k.map (·.1)) :
    keyGet k j = none := by
  induction k with
  | nil => rfl
  | cons a t ih =>
    obtain ⟨a1, a2⟩ := a
    simp only [List.map_cons, List.mem_cons, not_or] at h
    rw [keyGet_cons, if_neg h.1]
    exact ih h.2

theorem keys_of_mem_allKeys (sl : List SliceInfo) (k : List (Ix × Nat)) (h : k ∈ allKeys sl) :
    k.map (·.1) = sl.map (·.ind) := by
  induction sl generalizing k with
  | nil => simp [allKeys] at h; subst h; rfl
  | cons s rest ih =>
    simp only [allKeys, List.mem_flatMap, List.mem_map] at h
    obtain ⟨v, _, k', hk', rfl⟩ := h
    simp [ih k' hk']

/-- the sum over the sliced ranges is the sum over all keys -/
theorem sumOver_allKeys (sl : List SliceInfo) (hn : (sl.map (·.ind)).Nodup)
    (g : (Ix → Nat) → Int) (σ : Ix → Nat) :
    sumOver (sl.map fun s => (s.ind, s.slicedRange)) g σ =
      ((allKeys sl).map fun k => g (ov σ k)).sum := by
  induction sl generalizing σ with
  | nil =>
    have : ov σ [] = σ := by funext j; simp [ov, keyGet]
    simp [sumOver, allKeys, this]
  | cons s rest ih =>
    simp only [List.map_cons, List.nodup_cons] at hn
    simp only [List.map_cons, sumOver, allKeys]
    rw [sum_flatMap]
    congr 1
    apply List.map_congr_left
    intro v _
    rw [ih hn.2, List.map_map]
    congr 1
    apply List.map_congr_left
    intro k hk
    simp only [Function.comp]
    congr 1
    funext j
    unfold ov
    rw [keyGet_cons]
    by_cases hj : j = s.ind
    · subst hj
      have : keyGet k s.ind = none := by
        apply keyGet_none_of_not_mem
        rw [keys_of_mem_allKeys rest k hk]
        exact hn.1
      simp [this, upd]
    · simp [hj, upd]

theorem allKeys_append (a b : List SliceInfo) :
    allKeys (a ++ b) = (allKeys a).flatMap fun ka => (allKeys b).map fun kb => ka ++ kb := by
  induction a with
  | nil => simp [allKeys]
  | cons s t ih =>
    simp only [List.cons_append, allKeys, ih, List.flatMap_assoc, List.map_flatMap, List.flatMap_map]
    apply flatMap_congr'
    intro v _
    apply flatMap_congr'
    intro ka _
    simp [List.map_map, Function.comp]

/-! ### indexing the inputs -/

theorem fill_selector (sl : List SliceInfo) (key : List (Ix × Nat)) (σ : Ix → Nat)
    (hdom : ∀ ix, (keyGet key ix).isSome = isSliced sl ix) (term : List Ix) :
    IArr.fill (selector key term) ((term.filter fun ix => !isSliced sl ix).map σ) =
      term.map (ov σ key) := by
  induction term with
  | nil => rfl
  | cons ix t ih =>
    unfold selector at *
    cases hk : keyGet key ix with
    | none =>
      have hs : isSliced sl ix = false := by rw [← hdom, hk]; rfl
      simp only [List.map_cons, hk, List.filter_cons, hs, Bool.not_false, if_true, IArr.fill, ih]
      simp [ov, hk]
    | some v =>
      have hs : isSliced sl ix = true := by rw [← hdom, hk]; rfl
      simp only [List.map_cons, hk, List.filter_cons, hs, Bool.not_true, Bool.false_eq_true, if_false,
        IArr.fill, ih]
      simp [ov, hk]

/-- basic indexing in labelled form: `x[selector]` read at `σ` is `x` read at `σ` overridden by
    the key -/
theorem denote_select (sl : List SliceInfo) (key : List (Ix × Nat)) (σ : Ix → Nat)
    (hdom : ∀ ix, (keyGet key ix).isSome = isSliced sl ix) (term : List Ix) (a : IArr) :
    denote (term.filter fun ix => !isSliced sl ix) (a.select (selector key term)) σ =
      denote term a (ov σ key) := by
  unfold denote IArr.select
  simp only
  rw [fill_selector sl key σ hdom term]

theorem keyGet_sliceKey_isSome (sl : List SliceInfo) (i : Nat) (ix : Ix) :
    (keyGet (sliceKey sl i) ix).isSome = isSliced sl ix := by
  have hk := sliceKey_keys sl i
  generalize sliceKey sl i = k at hk
  induction sl generalizing k with
  | nil =>
    cases k with
    | nil => rfl
    | cons _ _ => simp at hk
  | cons s rest ih =>
    cases k with
    | nil => simp at hk
    | cons kv k' =>
      obtain ⟨a, b⟩ := kv
      simp only [List.map_cons, List.cons.injEq] at hk
      obtain ⟨rfl, hk'⟩ := hk
      rw [keyGet_cons]
      simp only [isSliced, List.any_cons]
      by_cases h : ix = s.ind
      · subst h; simp
      · have : (s.ind == ix) = false := by simpa using fun e => h e.symm
        simp only [h, if_false, this, Bool.false_or]
        exact ih k' hk'

/-! ### the product of the operands -/

/-- `Π_c A_c[σ(term_c)]` -/
def prodTerms (n : Net) (A : List IArr) (σ : Ix → Nat) : Int :=
  ((List.range n.inputs.length).map fun c => denote (n.term c) (A.getD c IArr.zero) σ).foldr (· * ·) 1

/-- the sliced network: sliced (and projected) indices dropped from every term and the output -/
def slicedNet (n : Net) (sl : List SliceInfo) : Net :=
  { inputs := n.inputs.map fun t => t.filter fun ix => !isSliced sl ix,
    output := n.output.filter fun ix => !isSliced sl ix,
    sizes := n.sizes }

theorem slicedNet_term (n : Net) (sl : List SliceInfo) (c : Nat) :
    (slicedNet n sl).term c = (n.term c).filter fun ix => !isSliced sl ix := by
  unfold Net.term slicedNet
  simp only [List.getD_eq_getElem?_getD, List.getElem?_map]
  cases n.inputs[c]? <;> simp

theorem sliceArrays_getD (n : Net) (st : SliceState) (A : List IArr) (i c : Nat) (hc : c < A.length) :
    (sliceArrays n st A i).getD c IArr.zero =
      if st.slicedInputs.contains c then (A.getD c IArr.zero).select (selector (sliceKey st.slicedInds i) (n.term c))
      else A.getD c IArr.zero := by
  unfold sliceArrays
  simp only [List.getD_eq_getElem?_getD, List.getElem?_map]
  have h1 : (A.zip (List.range A.length))[c]? = some (A[c], c) := by
    rw [List.getElem?_eq_getElem (by simp [hc])]
    simp
  rw [h1]
  simp [List.getElem?_eq_getElem hc]

/-- the operands of slice `i`, read at `σ`, are the operands of the unsliced network read at
    `σ` overridden by `slice_key(i)` -/
theorem prodTerms_sliced (n : Net) (st : SliceState) (hinv : Inv n st) (A : List IArr)
    (hA : A.length = n.inputs.length) (i : Nat) (σ : Ix → Nat) :
    prodTerms (slicedNet n st.slicedInds) (sliceArrays n st A i) σ =
      prodTerms n A (ov σ (sliceKey st.slicedInds i)) := by
  unfold prodTerms
  have hlen : (slicedNet n st.slicedInds).inputs.length = n.inputs.length := by simp [slicedNet]
  rw [hlen]
  congr 1
  apply List.map_congr_left
  intro c hc
  have hc' : c < n.inputs.length := List.mem_range.1 hc
  rw [slicedNet_term, sliceArrays_getD n st A i c (by omega)]
  have hdom := keyGet_sliceKey_isSome st.slicedInds i
  by_cases hin : st.slicedInputs.contains c = true
  · simp only [hin, if_true]
    exact denote_select st.slicedInds _ σ hdom (n.term c) _
  · simp only [hin, Bool.false_eq_true, if_false]
    -- no index of this term is sliced
    have hnone : ∀ ix ∈ n.term c, isSliced st.slicedInds ix = false := by
      intro ix hix
      cases hs : isSliced st.slicedInds ix with
      | false => rfl
      | true =>
        exfalso
        apply hin
        have := (hinv.inputs c).2 ⟨hc', ix, hix, hs⟩
        simpa using this
    have hf : (n.term c).filter (fun ix => !isSliced st.slicedInds ix) = n.term c := by
      apply List.filter_eq_self.2
      intro ix hix; simp [hnone ix hix]
    rw [hf]
    unfold denote
    congr 1
    apply List.map_congr_left
    intro ix hix
    have : keyGet (sliceKey st.slicedInds i) ix = none := by
      have := hdom ix
      rw [hnone ix hix] at this
      cases h : keyGet (sliceKey st.slicedInds i) ix with
      | none => rfl
      | some v => rw [h] at this; simp at this
    simp [ov, this]

end Cotengra.Slicing

namespace Cotengra.Slicing
open Cotengra

/-! ### assembling: matching slices ↔ keys of the sliced inner indices -/

theorem keyGet_append (a b : List (Ix × Nat)) (ix : Ix) :
    keyGet (a ++ b) ix = (keyGet a ix).orElse (fun _ => keyGet b ix) := by
  induction a with
  | nil => simp [keyGet]
  | cons kv t ih =>
    obtain ⟨k, v⟩ := kv
    rw [List.cons_append, keyGet_cons, keyGet_cons]
    by_cases h : ix = k
    · simp [h]
    · simp [h, ih]

theorem sum_ite_eq {α : Type _} [DecidableEq α] (l : List α) (a : α) (f : α → Int) (hn : l.Nodup)
    (ha : a ∈ l) : (l.map fun x => if x = a then f x else 0).sum = f a := by
  induction l with
  | nil => simp at ha
  | cons b t ih =>
    have hn' := List.nodup_cons.1 hn
    simp only [List.map_cons, List.sum_cons]
    rcases List.mem_cons.1 ha with rfl | hat
    · have : (t.map fun x => if x = a then f x else 0) = t.map fun _ => (0 : Int) := by
        apply List.map_congr_left
        intro x hx
        have : x ≠ a := fun e => hn'.1 (e ▸ hx)
        simp [this]
      rw [this, sum_map_zero]; simp
    · have : b ≠ a := fun e => hn'.1 (e ▸ hat)
      simp [this, ih hn'.2 hat]

/-- a key is determined by its index list and its values -/
theorem key_eq_map (k : List (Ix × Nat)) (hn : (k.map (·.1)).Nodup) :
    k = (k.map (·.1)).map fun ix => (ix, keyVal k ix) := by
  induction k with
  | nil => rfl
  | cons kv t ih =>
    obtain ⟨a, b⟩ := kv
    simp only [List.map_cons, List.nodup_cons] at hn
    simp only [List.map_cons, List.cons.injEq]
    refine ⟨by simp [keyVal, keyGet_cons], ?_⟩
    conv => lhs; rw [ih hn.2]
    apply List.map_congr_left
    intro ix hix
    have : ix ≠ a := fun e => hn.1 (e ▸ hix)
    simp [keyVal, keyGet_cons, this]

/-- the key of the sliced output indices selected by `σ` -/
def outKeyOf (sl : List SliceInfo) (σ : Ix → Nat) : List (Ix × Nat) :=
  (outs sl).map fun s => (s.ind, val sl σ s.ind)

/-- `σ` with the projected indices set to their chosen values -/
def projAt (sl : List SliceInfo) (σ : Ix → Nat) : Ix → Nat := fun ix =>
  match infoOf sl ix with
  | some s => (match s.project with
    | some p => p
    | none => σ ix)
  | none => σ ix

theorem val_eq_projAt (sl : List SliceInfo) (σ : Ix → Nat) (ix : Ix) (h : isSliced sl ix = true) :
    val sl σ ix = projAt sl σ ix := by
  unfold val projAt
  cases hi : infoOf sl ix with
  | some s => simp only; cases hp : s.project <;> simp [hp]
  | none =>
    exfalso
    unfold infoOf at hi
    rw [List.find?_eq_none] at hi
    unfold isSliced at h
    obtain ⟨s, hs, he⟩ := List.any_eq_true.1 h
    exact hi s hs he

theorem infoOf_none_of_not_sliced (sl : List SliceInfo) (ix : Ix) (h : isSliced sl ix = false) :
    infoOf sl ix = none := by
  unfold infoOf
  rw [List.find?_eq_none]
  intro s hs he
  have : isSliced sl ix = true := List.any_eq_true.2 ⟨s, hs, he⟩
  rw [h] at this; cases this

theorem keyGet_map_ind (l : List SliceInfo) (f : Ix → Nat) (ix : Ix) :
    keyGet (l.map fun s => (s.ind, f s.ind)) ix = if isSliced l ix then some (f ix) else none := by
  induction l with
  | nil => simp [keyGet, isSliced]
  | cons s t ih =>
    rw [List.map_cons, keyGet_cons]
    simp only [isSliced, List.any_cons] at ih ⊢
    by_cases h : ix = s.ind
    · subst h; simp
    · have : (s.ind == ix) = false := by simpa using fun e => h e.symm
      simp [h, this, ih]

end Cotengra.Slicing

namespace Cotengra.Slicing
open Cotengra

/-- values an index runs through in the reference: its sliced range if it is sliced or
    projected, its whole range otherwise -/
def rangeFor (n : Net) (sl : List SliceInfo) (ix : Ix) : List Nat :=
  match infoOf sl ix with
  | some s => s.slicedRange
  | none => List.range (n.size ix)

/-- the unsliced ranges of the summed indices that are not sliced -/
def restRanges (n : Net) (sl : List SliceInfo) (inner : List Ix) : List (Ix × List Nat) :=
  (inner.filter fun ix => !isSliced sl ix).map fun ix => (ix, List.range (n.size ix))

/-- **reference value**: einsum of the unsliced network over the summed indices `inner`, at
    the output assignment `σ`; a projected index (summed or output) takes only its chosen value -/
def einsumRef (n : Net) (sl : List SliceInfo) (inner : List Ix) (A : List IArr) (σ : Ix → Nat) : Int :=
  sumOver (inner.map fun ix => (ix, rangeFor n sl ix)) (prodTerms n A) (projAt sl σ)

/-- einsum of the sliced network of slice `i` (sliced indices dropped everywhere, arrays
    indexed by `slice_arrays(arrays, i)`), summed over the remaining inner indices -/
def sliceEinsum (n : Net) (st : SliceState) (inner : List Ix) (A : List IArr) (i : Nat)
    (σ : Ix → Nat) : Int :=
  sumOver (restRanges n st.slicedInds inner)
    (prodTerms (slicedNet n st.slicedInds) (sliceArrays n st A i)) σ

/-- a slice is the section of the unsliced sum at its key -/
theorem sliceEinsum_eq (n : Net) (st : SliceState) (hinv : Inv n st) (inner : List Ix) (A : List IArr)
    (hA : A.length = n.inputs.length) (i : Nat) (σ : Ix → Nat) :
    sliceEinsum n st inner A i σ =
      sumOver (restRanges n st.slicedInds inner) (prodTerms n A) (ov σ (sliceKey st.slicedInds i)) := by
  unfold sliceEinsum
  rw [sumOver_congr _ _ (fun τ => prodTerms n A (ov τ (sliceKey st.slicedInds i)))
    (fun τ => prodTerms_sliced n st hinv A hA i τ)]
  apply sumOver_ov
  intro p hp
  unfold restRanges at hp
  obtain ⟨ix, hix, rfl⟩ := List.mem_map.1 hp
  have hns : isSliced st.slicedInds ix = false := by
    have := (List.mem_filter.1 hix).2
    simpa using this
  have := keyGet_sliceKey_isSome st.slicedInds i ix
  rw [hns] at this
  cases h : keyGet (sliceKey st.slicedInds i) ix with
  | none => rfl
  | some v => rw [h] at this; simp at this

theorem mem_outs_or_inners (sl : List SliceInfo) (s : SliceInfo) (h : s ∈ sl) :
    s ∈ outs sl ∨ s ∈ inners sl := by
  unfold outs inners
  cases hi : s.inner with
  | false => exact Or.inl (List.mem_filter.2 ⟨h, by simp [hi]⟩)
  | true => exact Or.inr (List.mem_filter.2 ⟨h, hi⟩)

theorem exists_of_isSliced (sl : List SliceInfo) (ix : Ix) (h : isSliced sl ix = true) :
    ∃ s ∈ sl, s.ind = ix := by
  obtain ⟨s, hs, he⟩ := List.any_eq_true.1 h
  exact ⟨s, hs, by simpa using he⟩

theorem isSliced_of_mem (sl : List SliceInfo) (s : SliceInfo) (h : s ∈ sl) : isSliced sl s.ind = true :=
  List.any_eq_true.2 ⟨s, h, by simp⟩

theorem keyGet_isSome_of_mem (k : List (Ix × Nat)) (ix : Ix) (h : ix ∈ k.map (·.1)) :
    (keyGet k ix).isSome = true := by
  induction k with
  | nil => simp at h
  | cons kv t ih =>
    obtain ⟨a, b⟩ := kv
    rw [keyGet_cons]
    by_cases e : ix = a
    · simp [e]
    · simp only [e, if_false]
      simp only [List.map_cons, List.mem_cons] at h
      rcases h with h | h
      · exact absurd h e
      · exact ih h

/-- the output-key test of `gather_slices` singles out one key of the sliced output indices -/
theorem outkey_match_iff (n : Net) (sl : List SliceInfo) (hf : Flags n sl)
    (hnd : (sl.map (·.ind)).Nodup) (σ : Ix → Nat) (kO kI : List (Ix × Nat))
    (hkO : kO ∈ allKeys (outs sl)) :
    ((outputPos sl n.output).map (fun p => keyVal (kO ++ kI) p.1) =
        (outputPos sl n.output).map (fun p => val sl σ p.1)) ↔ kO = outKeyOf sl σ := by
  have hkeys := keys_of_mem_allKeys _ _ hkO
  have hondup : ((outs sl).map (·.ind)).Nodup :=
    List.Nodup.sublist (List.Sublist.map _ List.filter_sublist) hnd
  have hopos : (outputPos sl n.output).map (·.1) = n.output.filter (isSliced sl) :=
    fst_outputPosFrom sl 0 n.output
  -- values of kO ++ kI on the indices of kO
  have hval : ∀ s ∈ outs sl, keyVal (kO ++ kI) s.ind = keyVal kO s.ind := by
    intro s hs
    unfold keyVal
    rw [keyGet_append]
    have : (keyGet kO s.ind).isSome = true :=
      keyGet_isSome_of_mem kO s.ind (by rw [hkeys]; exact List.mem_map.2 ⟨s, hs, rfl⟩)
    obtain ⟨v, hv⟩ := Option.isSome_iff_exists.1 this
    simp [hv]
  rw [List.map_inj_left]
  constructor
  · intro h
    have hk : kO = (kO.map (·.1)).map fun ix => (ix, keyVal kO ix) := key_eq_map kO (by rw [hkeys]; exact hondup)
    rw [hk, hkeys, List.map_map]
    unfold outKeyOf
    apply List.map_congr_left
    intro s hs
    simp only [Function.comp, Prod.mk.injEq, true_and]
    have hsl : s ∈ sl := (List.mem_filter.1 hs).1
    have hinn : s.inner = false := by simpa using (List.mem_filter.1 hs).2
    have hout : n.output.contains s.ind = true := by
      have := (hf s hsl).1
      rw [hinn] at this
      simpa using this.symm
    have hmem : s.ind ∈ (outputPos sl n.output).map (·.1) := by
      rw [hopos]
      exact List.mem_filter.2 ⟨by simpa using hout, isSliced_of_mem sl s hsl⟩
    obtain ⟨p, hp, hpe⟩ := List.mem_map.1 hmem
    have := h p hp
    rw [hpe, hval s hs] at this
    exact this
  · intro h p hp
    have hmem : p.1 ∈ n.output.filter (isSliced sl) := by
      rw [← hopos]; exact List.mem_map.2 ⟨p, hp, rfl⟩
    obtain ⟨hpo, hps⟩ := List.mem_filter.1 hmem
    obtain ⟨s, hs, hse⟩ := exists_of_isSliced sl p.1 hps
    have hinn : s.inner = false := by
      have := (hf s hs).1
      rw [hse] at this
      have hc : n.output.contains p.1 = true := by simpa using hpo
      rw [hc] at this
      simpa using this
    have hso : s ∈ outs sl := List.mem_filter.2 ⟨hs, by simp [hinn]⟩
    rw [← hse, hval s hso, h]
    unfold outKeyOf keyVal
    have := keyGet_map_ind (outs sl) (val sl σ) s.ind
    rw [this, isSliced_of_mem _ s hso]
    rfl

theorem outKeyOf_mem (sl : List SliceInfo) (hnd : (sl.map (·.ind)).Nodup) (σ : Ix → Nat)
    (hσ : ∀ s ∈ outs sl, InRange sl σ s.ind) : outKeyOf sl σ ∈ allKeys (outs sl) := by
  rw [mem_allKeys]
  unfold outKeyOf
  have hsub : ∀ s ∈ outs sl, s ∈ sl := fun s hs => (List.mem_filter.1 hs).1
  generalize outs sl = L at hσ hsub
  induction L with
  | nil => trivial
  | cons s t ih =>
    refine ⟨rfl, ?_, ih (fun x hx => hσ x (List.mem_cons_of_mem _ hx))
      (fun x hx => hsub x (List.mem_cons_of_mem _ hx))⟩
    have hr := rangeOf_get sl σ s.ind (hσ s List.mem_cons_self)
    have hinfo := infoOf_of_mem sl hnd s (hsub s List.mem_cons_self)
    have : rangeOf sl s.ind = s.slicedRange := by simp [rangeOf, hinfo]
    rw [this] at hr
    exact List.mem_of_getElem? hr

/-- override by (output key of `σ`) ++ (inner key) = projection-adjusted `σ` overridden by the
    inner key -/
theorem ov_outKey_append (sl : List SliceInfo) (hnd : (sl.map (·.ind)).Nodup) (σ : Ix → Nat)
    (kI : List (Ix × Nat)) (hkI : kI ∈ allKeys (inners sl)) :
    ov σ (outKeyOf sl σ ++ kI) = ov (projAt sl σ) kI := by
  have hkeys := keys_of_mem_allKeys _ _ hkI
  funext ix
  unfold ov
  rw [keyGet_append]
  unfold outKeyOf
  rw [keyGet_map_ind]
  by_cases ho : isSliced (outs sl) ix = true
  · simp only [ho, if_true, Option.orElse_some, Option.getD_some]
    obtain ⟨s, hs, hse⟩ := exists_of_isSliced _ ix ho
    have hsl : s ∈ sl := (List.mem_filter.1 hs).1
    have hnone : keyGet kI ix = none := by
      apply keyGet_none_of_not_mem
      rw [hkeys]
      intro hm
      obtain ⟨s', hs', hse'⟩ := List.mem_map.1 hm
      have h1 := infoOf_of_mem sl hnd s hsl
      have h2 := infoOf_of_mem sl hnd s' (List.mem_filter.1 hs').1
      rw [hse] at h1; rw [hse'] at h2
      rw [h1] at h2
      cases h2
      have hi1 : s.inner = false := by simpa using (List.mem_filter.1 hs).2
      have hi2 : s.inner = true := (List.mem_filter.1 hs').2
      rw [hi1] at hi2; cases hi2
    rw [hnone, Option.getD_none]
    rw [← hse]
    exact val_eq_projAt sl σ s.ind (isSliced_of_mem sl s hsl)
  · simp only [ho, Bool.false_eq_true, if_false, Option.orElse_none]
    cases hk : keyGet kI ix with
    | some v => rfl
    | none =>
      simp only [Option.getD_none]
      -- ix is not sliced at all
      have hns : isSliced sl ix = false := by
        cases h : isSliced sl ix with
        | false => rfl
        | true =>
          exfalso
          obtain ⟨s, hs, hse⟩ := exists_of_isSliced sl ix h
          rcases mem_outs_or_inners sl s hs with h1 | h1
          · exact ho (hse ▸ isSliced_of_mem _ s h1)
          · have hm : ix ∈ kI.map (·.1) := by
              rw [hkeys]; exact List.mem_map.2 ⟨s, h1, hse⟩
            have := keyGet_isSome_of_mem kI ix hm
            rw [hk] at this; cases this
      unfold projAt
      rw [infoOf_none_of_not_sliced sl ix hns]

/-- the reference sum, with the sliced inner indices pulled out in dict order -/
theorem einsumRef_eq (n : Net) (sl : List SliceInfo) (hf : Flags n sl) (hnd : (sl.map (·.ind)).Nodup)
    (inner : List Ix) (hin : inner.Nodup) (hdisj : ∀ ix ∈ inner, ix ∉ n.output)
    (hcover : ∀ s ∈ sl, s.ind ∉ n.output → s.ind ∈ inner) (A : List IArr) (σ : Ix → Nat) :
    einsumRef n sl inner A σ =
      ((allKeys (inners sl)).map fun kI =>
        sumOver (restRanges n sl inner) (prodTerms n A) (ov (projAt sl σ) kI)).sum := by
  have hinn : ((inners sl).map (·.ind)).Nodup :=
    List.Nodup.sublist (List.Sublist.map _ List.filter_sublist) hnd
  -- the summed indices, sliced ones first
  have hperm : inner.Perm ((inners sl).map (·.ind) ++ inner.filter fun ix => !isSliced sl ix) := by
    have h1 : (inner.filter (isSliced sl) ++ inner.filter fun ix => !isSliced sl ix).Perm inner :=
      List.filter_append_perm _ _
    refine h1.symm.trans (List.Perm.append_right _ ?_)
    rw [List.perm_ext_iff_of_nodup (hin.filter _) hinn]
    intro ix
    constructor
    · intro h
      obtain ⟨hi, hs⟩ := List.mem_filter.1 h
      obtain ⟨s, hsl, hse⟩ := exists_of_isSliced sl ix hs
      refine List.mem_map.2 ⟨s, List.mem_filter.2 ⟨hsl, ?_⟩, hse⟩
      have := (hf s hsl).1
      rw [hse] at this
      have hc : n.output.contains ix = false := by simpa using hdisj ix hi
      rw [hc] at this
      simpa using this
    · intro h
      obtain ⟨s, hs, hse⟩ := List.mem_map.1 h
      have hsl : s ∈ sl := (List.mem_filter.1 hs).1
      have hi : s.inner = true := (List.mem_filter.1 hs).2
      have hno : s.ind ∉ n.output := by
        have := (hf s hsl).1
        rw [hi] at this
        simpa using this.symm
      rw [← hse]
      exact List.mem_filter.2 ⟨hcover s hsl hno, isSliced_of_mem sl s hsl⟩
  unfold einsumRef
  have hkeys : ((inner.map fun ix => (ix, rangeFor n sl ix)).map (·.1)).Nodup := by
    rw [List.map_map, show ((fun x : Ix × List Nat => x.1) ∘ fun ix => (ix, rangeFor n sl ix)) = id from rfl,
      List.map_id]
    exact hin
  rw [sumOver_perm (hperm.map fun ix => (ix, rangeFor n sl ix)) _ hkeys, List.map_append, sumOver_append]
  have e1 : ((inners sl).map (·.ind)).map (fun ix => (ix, rangeFor n sl ix)) =
      (inners sl).map fun s => (s.ind, s.slicedRange) := by
    rw [List.map_map]
    apply List.map_congr_left
    intro s hs
    have hsl : s ∈ sl := (List.mem_filter.1 hs).1
    simp [rangeFor, infoOf_of_mem sl hnd s hsl]
  have e2 : (inner.filter fun ix => !isSliced sl ix).map (fun ix => (ix, rangeFor n sl ix)) =
      restRanges n sl inner := by
    unfold restRanges
    apply List.map_congr_left
    intro ix hix
    have : isSliced sl ix = false := by simpa using (List.mem_filter.1 hix).2
    simp [rangeFor, infoOf_none_of_not_sliced sl ix this]
  rw [e1, e2, sumOver_allKeys _ hinn]

end Cotengra.Slicing

namespace Cotengra.Slicing
open Cotengra

/-! ### the slice results as arrays (for a hypothesis-free statement) -/

theorem sumOver_agree (R : List (Ix × List Nat)) (f : (Ix → Nat) → Int) :
    ∀ (L : List Ix) (σ σ' : Ix → Nat),
      (∀ τ τ' : Ix → Nat, (∀ ix, ix ∈ L ∨ ix ∈ R.map (·.1) → τ ix = τ' ix) → f τ = f τ') →
      (∀ ix ∈ L, σ ix = σ' ix) → sumOver R f σ = sumOver R f σ' := by
  induction R with
  | nil =>
    intro L σ σ' hf h
    exact hf σ σ' (fun ix hix => by
      rcases hix with h1 | h1
      · exact h ix h1
      · simp at h1)
  | cons x rs ih =>
    obtain ⟨jx, vals⟩ := x
    intro L σ σ' hf h
    simp only [sumOver]
    congr 1
    apply List.map_congr_left
    intro v _
    apply ih (jx :: L)
    · intro τ τ' hag
      apply hf
      intro ix hix
      apply hag
      rcases hix with h1 | h1
      · exact Or.inl (List.mem_cons_of_mem _ h1)
      · simp only [List.map_cons, List.mem_cons] at h1
        rcases h1 with h1 | h1
        · exact Or.inl (by rw [h1]; exact List.mem_cons_self)
        · exact Or.inr h1
    · intro ix hix
      unfold upd
      by_cases e : ix = jx
      · simp [e]
      · simp only [e, if_false]
        rcases List.mem_cons.1 hix with h1 | h1
        · exact absurd h1 e
        · exact h ix h1

theorem prodTerms_agree (n : Net) (A : List IArr) (τ τ' : Ix → Nat)
    (h : ∀ c, ∀ ix ∈ n.term c, τ ix = τ' ix) : prodTerms n A τ = prodTerms n A τ' := by
  unfold prodTerms
  congr 1
  apply List.map_congr_left
  intro c _
  unfold denote
  congr 1
  exact List.map_congr_left (h c)

/-- the assignment that reads index `ix` off position `axes.idxOf ix` of a multi-index -/
def assignOf (axes : List Ix) (idx : List Nat) : Ix → Nat := fun ix => idx.getD (axes.idxOf ix) 0

theorem assignOf_map (axes : List Ix) (σ : Ix → Nat) (ix : Ix) (h : ix ∈ axes) :
    assignOf axes (axes.map σ) ix = σ ix := by
  unfold assignOf
  have hlt : axes.idxOf ix < axes.length := List.idxOf_lt_length_of_mem h
  rw [List.getD_eq_getElem?_getD, List.getElem?_map, List.getElem?_eq_getElem hlt]
  simp [List.getElem_idxOf hlt]

/-- the result of contracting slice `i`, as an array with axes `output` minus sliced indices:
    by definition the einsum of the sliced network (what C01 proves `contract_core` returns) -/
def sliceResult (n : Net) (st : SliceState) (inner : List Ix) (A : List IArr) (i : Nat) : IArr :=
  { shape := (slicedNet n st.slicedInds).output.map n.size,
    get := fun idx => sliceEinsum n st inner A i (assignOf (slicedNet n st.slicedInds).output idx) }

theorem denote_sliceResult (n : Net) (st : SliceState) (inner : List Ix) (A : List IArr) (i : Nat)
    (hall : ∀ c, ∀ ix ∈ n.term c, ix ∈ n.output ∨ ix ∈ inner) (σ : Ix → Nat) :
    denote (slicedNet n st.slicedInds).output (sliceResult n st inner A i) σ =
      sliceEinsum n st inner A i σ := by
  unfold denote sliceResult sliceEinsum
  simp only
  apply sumOver_agree _ _ (slicedNet n st.slicedInds).output
  · intro τ τ' hag
    apply prodTerms_agree
    intro c ix hix
    rw [slicedNet_term] at hix
    obtain ⟨hterm, hns⟩ := List.mem_filter.1 hix
    apply hag
    rcases hall c ix hterm with h | h
    · left
      exact List.mem_filter.2 ⟨h, hns⟩
    · right
      unfold restRanges
      rw [List.map_map]
      exact List.mem_map.2 ⟨ix, List.mem_filter.2 ⟨h, hns⟩, rfl⟩
  · intro ix hix
    exact assignOf_map _ σ ix hix

end Cotengra.Slicing

namespace Cotengra.Slicing
open Cotengra

/-! ### chunks are section sums -/

theorem ov_ov_append (σ : Ix → Nat) (kO kI : List (Ix × Nat)) :
    ov (ov σ kO) (kO ++ kI) = ov σ (kO ++ kI) := by
  funext ix
  unfold ov
  rw [keyGet_append]
  cases h1 : keyGet kO ix with
  | some v => simp
  | none =>
    simp only [Option.orElse_none]
    cases h2 : keyGet kI ix with
    | some w => simp
    | none => simp [h1]

theorem keyGet_of_validKey (sl : List SliceInfo) (k : List (Ix × Nat)) (hk : ValidKey sl k)
    (hnd : (sl.map (·.ind)).Nodup) (s : SliceInfo) (hs : s ∈ sl) :
    ∃ v, keyGet k s.ind = some v ∧ v ∈ s.slicedRange := by
  induction sl generalizing k with
  | nil => simp at hs
  | cons a t ih =>
    cases k with
    | nil => simp [ValidKey] at hk
    | cons kv k' =>
      obtain ⟨x, y⟩ := kv
      obtain ⟨h1, h2, h3⟩ := hk
      simp only at h1 h2
      subst h1
      simp only [List.map_cons, List.nodup_cons] at hnd
      rw [keyGet_cons]
      rcases List.mem_cons.1 hs with rfl | hs'
      · exact ⟨y, by simp, h2⟩
      · have : s.ind ≠ a.ind := fun e => hnd.1 (e ▸ List.mem_map.2 ⟨s, hs', rfl⟩)
        simp only [this, if_false]
        exact ih k' h3 hnd.2 hs'

/-- the output key selected by `σ` overridden with a valid key of the sliced outputs is that key -/
theorem outKeyOf_ov (sl : List SliceInfo) (hnd : (sl.map (·.ind)).Nodup) (σ : Ix → Nat)
    (kO : List (Ix × Nat)) (hk : kO ∈ allKeys (outs sl)) : outKeyOf sl (ov σ kO) = kO := by
  have hkeys := keys_of_mem_allKeys _ _ hk
  have hondup : ((outs sl).map (·.ind)).Nodup :=
    List.Nodup.sublist (List.Sublist.map _ List.filter_sublist) hnd
  have hv := (mem_allKeys _ _).1 hk
  conv => rhs; rw [key_eq_map kO (by rw [hkeys]; exact hondup), hkeys, List.map_map]
  unfold outKeyOf
  apply List.map_congr_left
  intro s hs
  simp only [Function.comp, Prod.mk.injEq, true_and]
  obtain ⟨v, hv1, hv2⟩ := keyGet_of_validKey (outs sl) kO hv hondup s hs
  have hsl : s ∈ sl := (List.mem_filter.1 hs).1
  unfold val keyVal
  rw [infoOf_of_mem sl hnd s hsl, hv1]
  simp only [Option.getD_some]
  cases hp : s.project with
  | none => simp [ov, hv1]
  | some p =>
    simp only [SliceInfo.slicedRange, hp, List.mem_singleton] at hv2
    simp [hv2]

/-- **a chunk is a section sum**: summing the slices `o*stepsize … o*stepsize+stepsize-1`
    gives the reference einsum with the sliced output indices held at the chunk's key -/
theorem chunk_section (n : Net) (st : SliceState) (hinv : Inv n st) (inner : List Ix)
    (hin : inner.Nodup) (hdisj : ∀ ix ∈ inner, ix ∉ n.output)
    (hcover : ∀ s ∈ st.slicedInds, s.ind ∉ n.output → s.ind ∈ inner)
    (A : List IArr) (hA : A.length = n.inputs.length) (σ : Ix → Nat) (o : Nat)
    (ho : o < nchunks st.slicedInds) :
    ((List.range (stepsize st.slicedInds)).map fun j =>
        sliceEinsum n st inner A (o * stepsize st.slicedInds + j) σ).sum =
      einsumRef n st.slicedInds inner A (ov σ (sliceKey (outs st.slicedInds) o)) := by
  set sl := st.slicedInds with hsl
  have hwf : WF sl := hinv.flags.wf
  have hnd := hinv.nodup
  have hsplit := sorted_eq sl hinv.sorted
  have hwf2 : WF (outs sl ++ inners sl) := by rw [← hsplit]; exact hwf
  have hwfo : WF (outs sl) := fun s h => hwf s (List.mem_filter.1 h).1
  have hwfi : WF (inners sl) := fun s h => hwf s (List.mem_filter.1 h).1
  have hkO : sliceKey (outs sl) o ∈ allKeys (outs sl) := by
    rw [← map_sliceKey_range (outs sl) hwfo]
    exact List.mem_map.2 ⟨o, List.mem_range.2 ho, rfl⟩
  have h1 : ((List.range (stepsize sl)).map fun j => sliceEinsum n st inner A (o * stepsize sl + j) σ) =
      ((List.range (prodSizes (inners sl))).map (sliceKey (inners sl))).map fun kI =>
        sumOver (restRanges n sl inner) (prodTerms n A) (ov σ (sliceKey (outs sl) o ++ kI)) := by
    rw [List.map_map]
    apply List.map_congr_left
    intro j hj
    have hj' : j < stepsize sl := List.mem_range.1 hj
    simp only [Function.comp]
    rw [sliceEinsum_eq n st hinv inner A hA _ σ]
    have := sliceKey_append (outs sl) (inners sl) hwf2 o j ho hj'
    rw [← hsplit] at this
    show sumOver _ _ (ov σ (sliceKey sl (o * stepsize sl + j))) = _
    rw [show o * stepsize sl + j = o * prodSizes (inners sl) + j from rfl, this]
  rw [h1, map_sliceKey_range (inners sl) hwfi,
    einsumRef_eq n sl hinv.flags hnd inner hin hdisj hcover A]
  congr 1
  apply List.map_congr_left
  intro kI hkI
  rw [← ov_outKey_append sl hnd (ov σ (sliceKey (outs sl) o)) kI hkI,
    outKeyOf_ov sl hnd σ _ hkO, ov_ov_append]

end Cotengra.Slicing
