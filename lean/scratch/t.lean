import CotengraVerif.Props.C11
#print axioms Cotengra.C11.perm_is_perm
#print axioms Cotengra.C11.plan_groups_partition
