import CotengraVerif.Lemmas.BmmMain
#print axioms Cotengra.Bmm.bmm_lab
#print axioms Cotengra.Bmm.pure_lab
#print axioms Cotengra.Bmm.single_plan_lab
