import CotengraVerif.Props.C11
#print axioms Cotengra.C11.model_plan_sound
#print axioms Cotengra.C11.head_plan_sound_partial
#print axioms Cotengra.C11.head_plan_sound_nodup
#print axioms Cotengra.C11.head_plan_counterexample
#print axioms Cotengra.C11.single_plan_sound
