#!/venv/bin/python
"""Option-coverage audit of a property check (a development aid, not a check).

  tools/optcov.py C07 [--tier quick] [--files cotengra/slicer.py,...]

Runs the harness module's `run(ctx, drv)` under `sys.setprofile` and records, for every function of the
anchored cotengra source files that was called, which values each parameter took (None / bool / small
int / str literally, everything else by type name).  Reports
  * anchored functions that were never called,
  * parameters with a default that were only ever seen at their default (or at a single value).
These are the blind spots a seeded change can hide in (an option the generator never varies, an
entry point never exercised).  Output: optcov/<Cxx>.json + a short text summary.
"""
import argparse, ast, importlib, json, os, sys, time

V = os.path.dirname(os.path.dirname(os.path.abspath(__file__)))
sys.path.insert(0, V)
os.chdir(V)
from harness import common  # noqa: E402


def summarise(v):
    if v is None or isinstance(v, bool):
        return repr(v)
    if isinstance(v, int):
        return repr(v) if -2 <= v <= 8 else "int"
    if isinstance(v, float):
        return repr(v) if v in (0.0, 1.0, float("inf")) else "float"
    if isinstance(v, str):
        return repr(v) if len(v) <= 24 else "str"
    if isinstance(v, (tuple, list, dict, set, frozenset)):
        return type(v).__name__ + ("()" if len(v) == 0 else "")
    return type(v).__name__


def static_functions(path):
    """{(qualname): {param: default_repr or <required>}} with first line numbers"""
    tree = ast.parse(open(path).read())
    out = {}

    def visit(node, prefix):
        for ch in ast.iter_child_nodes(node):
            if isinstance(ch, ast.ClassDef):
                visit(ch, prefix + ch.name + ".")
            elif isinstance(ch, (ast.FunctionDef, ast.AsyncFunctionDef)):
                a = ch.args
                params = {}
                pos = a.posonlyargs + a.args
                defaults = [None] * (len(pos) - len(a.defaults)) + list(a.defaults)
                for p, d in zip(pos, defaults):
                    params[p.arg] = "<required>" if d is None else ast.unparse(d)
                for p, d in zip(a.kwonlyargs, a.kw_defaults):
                    params[p.arg] = "<required>" if d is None else ast.unparse(d)
                lines = [ch.lineno] + [d.lineno for d in ch.decorator_list]
                out[prefix + ch.name] = {"params": params, "lines": lines}
                visit(ch, prefix + ch.name + ".<locals>.")
    visit(tree, "")
    return out


def main():
    ap = argparse.ArgumentParser()
    ap.add_argument("prop")
    ap.add_argument("--tier", default="quick")
    ap.add_argument("--files", default=None)
    ap.add_argument("--budget", type=int, default=900)
    a = ap.parse_args()
    prop = a.prop.upper()
    mod = importlib.import_module(f"harness.{prop.lower()}")
    files = a.files.split(",") if a.files else common.anchored_files(prop, mod)
    absfiles = {os.path.realpath(os.path.join(common.REPO, f)): f for f in files}
    static = {f: static_functions(os.path.join(common.REPO, f)) for f in files}
    by_line = {}
    for f, fns in static.items():
        for q, info in fns.items():
            for ln in info["lines"]:
                by_line[(f, ln)] = q
    seen = {}

    def prof(frame, event, arg):
        if event != "call":
            return
        code = frame.f_code
        f = absfiles.get(code.co_filename)
        if f is None:
            return
        q = by_line.get((f, code.co_firstlineno))
        if q is None:
            return
        rec = seen.setdefault((f, q), {"calls": 0, "vals": {}})
        rec["calls"] += 1
        if rec["calls"] > 20000:
            return
        n = code.co_argcount + code.co_kwonlyargcount
        for name in code.co_varnames[:n]:
            if name in frame.f_locals:
                s = rec["vals"].setdefault(name, set())
                if len(s) < 12:
                    s.add(summarise(frame.f_locals[name]))

    ctx = common.Ctx(prop, a.tier, 0)
    ctx.budget_s = a.budget
    common.install_alarm(a.budget + 60)
    drv = common.Driver()
    import threading
    threading.setprofile(prof)
    sys.setprofile(prof)
    t0 = time.time()
    try:
        mod.run(ctx, drv)
    except common.Timeout:
        pass
    finally:
        sys.setprofile(None)
        threading.setprofile(None)
        drv.close()
    report = {"property": prop, "files": files, "wall_s": round(time.time() - t0, 1), "never_called": [],
              "only_default": [], "single_value": []}
    for f, fns in static.items():
        for q, info in sorted(fns.items()):
            if "<locals>" in q:
                continue
            rec = seen.get((f, q))
            if rec is None:
                report["never_called"].append(f"{f}::{q}")
                continue
            for p, d in info["params"].items():
                if p in ("self", "cls") or d == "<required>":
                    continue
                vals = rec["vals"].get(p, set())
                dd = d
                if len(vals) <= 1:
                    only = next(iter(vals)) if vals else "?"
                    entry = f"{f}::{q}({p}={dd}) only ever {only} [{rec['calls']} calls]"
                    (report["only_default"] if only in (dd, repr(dd)) or only == dd.strip("'\"") or
                     (dd in ("None", "True", "False") and only == dd) else report["single_value"]).append(entry)
    os.makedirs(os.path.join(V, "optcov"), exist_ok=True)
    json.dump(report, open(os.path.join(V, "optcov", prop + ".json"), "w"), indent=1)
    print(f"# {prop}: {len(report['never_called'])} anchored functions never called, "
          f"{len(report['only_default'])} parameters only at their default, "
          f"{len(report['single_value'])} at a single non-default value ({report['wall_s']}s)")
    for k in ("never_called", "only_default", "single_value"):
        print("##", k)
        for e in report[k]:
            print("  ", e)


if __name__ == "__main__":
    main()
