#!/venv/bin/python
"""Re-run the current checks against every stored seeded change (regression test of the machinery).

  tools/seedcheck.py [names...] [--tier quick] [--out seeded/RECHECK.json] [--all-props]

For each seeded/<name>/ : scratch worktree of /repo (outside /repo and /verif), `git apply
[--3way] patch.diff`, `./check <prop>` with COTENGRA_REPO=<scratch>, replay of the first
violation on the changed tree (must exit 1) and on the clean tree (must exit 0), worktree
removed.  The demo and the test-suite are not re-run (tools/seedtest.py did that when the change
was accepted).  Results go to seeded/RECHECK.json (name -> {prop: {exit, replay_changed,
replay_clean, no_input, s}}).
"""
import argparse, glob, json, os, subprocess, sys, tempfile, time

V = os.path.dirname(os.path.dirname(os.path.abspath(__file__)))


def sh(cmd, **kw):
    return subprocess.run(cmd, shell=True, capture_output=True, text=True, **kw)


def one(name, tier, props=None):
    src = os.path.join(V, "seeded", name)
    meta = json.load(open(os.path.join(src, "meta.json")))
    props = props or [meta["property"]]
    scratch = tempfile.mkdtemp(prefix="seedcheck-", dir="/tmp")
    os.rmdir(scratch)
    r = sh(f"git -C /repo worktree add --detach {scratch} -q")
    assert r.returncode == 0, r.stderr
    res = {}
    try:
        patch = os.path.join(src, "patch.diff")
        r2 = sh(f"git -C {scratch} apply {patch}")
        if r2.returncode != 0:
            r2 = sh(f"git -C {scratch} apply --3way {patch}")
        if r2.returncode != 0:
            return {"error": "patch does not apply: " + r2.stderr[-300:]}
        for p in props:
            t0 = time.time()
            rc = sh(f"./check {p} --tier {tier}", env={**os.environ, "COTENGRA_REPO": scratch}, cwd=V)
            lines = [l for l in rc.stdout.split("\n") if l.startswith("VIOLATION")]
            c = {"exit": rc.returncode, "s": round(time.time() - t0),
                 "no_input": bool(lines) and all("no-failing-input-found" in l for l in lines),
                 "first": lines[0][:200] if lines else ""}
            viol = [l for l in lines if "no-failing-input-found" not in l]
            if viol:
                path = viol[0].split("replay=")[1].split()[0]
                c["replay_changed"] = sh(f"./check {p} --replay {path}",
                                         env={**os.environ, "COTENGRA_REPO": scratch}, cwd=V).returncode
                c["replay_clean"] = sh(f"./check {p} --replay {path}", cwd=V).returncode
            if rc.returncode == 2:
                c["tail"] = (rc.stdout + rc.stderr)[-600:]
            res[p] = c
    finally:
        sh(f"git -C /repo worktree remove --force {scratch}")
    return res


def main():
    ap = argparse.ArgumentParser()
    ap.add_argument("names", nargs="*")
    ap.add_argument("--tier", default="quick")
    ap.add_argument("--out", default=os.path.join(V, "seeded", "RECHECK.json"))
    ap.add_argument("--props", default=None)
    ap.add_argument("--update-meta", action="store_true",
                    help="record the result as `recheck` in seeded/<name>/meta.json (after a check was strengthened)")
    a = ap.parse_args()
    names = a.names or sorted(os.path.basename(os.path.dirname(f))
                              for f in glob.glob(os.path.join(V, "seeded", "*", "meta.json")))
    out = json.load(open(a.out)) if os.path.exists(a.out) else {}
    for n in names:
        out[n] = one(n, a.tier, a.props.split(",") if a.props else None)
        print(n, json.dumps(out[n])[:300], flush=True)
        if a.update_meta and "error" not in out[n]:
            mp = os.path.join(V, "seeded", n, "meta.json")
            meta = json.load(open(mp))
            rc = meta.setdefault("recheck", {})
            rc.update({p: {k: v for k, v in c.items() if k != "tail"} for p, c in out[n].items()})
            meta["caught_by_now"] = sorted(set(meta.get("caught_by", [])) |
                                           {p for p, c in rc.items() if c.get("exit") == 1})
            json.dump(meta, open(mp, "w"), indent=1)
        json.dump(out, open(a.out, "w"), indent=1, sort_keys=True)
    caught = [n for n in names if any(isinstance(c, dict) and c.get("exit") == 1 for c in out[n].values())]
    print(f"{len(caught)}/{len(names)} caught; quiet: {[n for n in names if n not in caught]}")


if __name__ == "__main__":
    main()
