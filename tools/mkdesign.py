#!/usr/bin/env python3
"""Splice the per-property as-built notes (design/Cxx.md) into DESIGN.md between the markers."""
import glob, os, re
V = os.path.dirname(os.path.dirname(os.path.abspath(__file__)))
d = open(os.path.join(V, "DESIGN.md")).read()
B, E = "<!-- AS-BUILT BEGIN -->", "<!-- AS-BUILT END -->"
parts = []
for f in sorted(glob.glob(os.path.join(V, "design", "C*.md"))):
    txt = open(f).read().strip()
    txt = re.sub(r"^# ", "### ", txt, flags=re.M)
    parts.append(txt)
body = B + "\n\n" + "\n\n".join(parts) + "\n\n" + E
if B in d:
    d = d[:d.index(B)] + body + d[d.index(E) + len(E):]
else:
    d = d.rstrip() + "\n\n---------------------------------------------------------------------------\n\n## 10. As built, per property (generated from design/Cxx.md by tools/mkdesign.py)\n\n" + body + "\n"
open(os.path.join(V, "DESIGN.md"), "w").write(d)
# table of repairs made to /repo (fix: commits) with the properties whose findings they close
import json, subprocess
log = subprocess.run(["git", "-C", "/repo", "log", "--reverse", "--format=%h\t%s"], capture_output=True, text=True).stdout.strip().split("\n")
kf = json.load(open(os.path.join(V, "known_findings.json")))["findings"]
rows = []
for line in log:
    h, subj = line.split("\t", 1)
    if not subj.startswith("fix:"):
        continue
    props = sorted({e["property"] for e in kf if e.get("kind") == "fixed" and str(e.get("commit", "")).startswith(h[:7])})
    rows.append(f"| `{h}` | {', '.join(props) or '-'} | {subj[4:].strip()} |")
FB, FE = "<!-- FIXES BEGIN -->", "<!-- FIXES END -->"
known = [e for e in kf if e.get("kind") == "known"]
krows = [f"| {e['property']} | {e['what'][:300].replace('|', '/')} |" for e in known]
ftab = (FB + "\n\n| commit in /repo | closes findings of | subject |\n|---|---|---|\n" + "\n".join(rows) +
        "\n\nGenuine defects recorded and not repaired (`known` entries of `known_findings.json`; each check prints a "
        "`KNOWN-FINDING:` line for them and still reports any other violation of the same property):\n\n"
        "| property | what fails |\n|---|---|\n" + "\n".join(krows) + "\n\n" + FE)
d = open(os.path.join(V, "DESIGN.md")).read()
if FB in d:
    d = d[:d.index(FB)] + ftab + d[d.index(FE) + len(FE):]
open(os.path.join(V, "DESIGN.md"), "w").write(d)
print("spliced", len(parts), "notes;", len(rows), "fix commits;", len(known), "known findings")
