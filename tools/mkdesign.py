#!/usr/bin/env python3
"""Splice the per-property as-built notes (design/Cxx.md) into DESIGN.md between the markers."""
import glob, os, re
V = os.path.dirname(os.path.dirname(os.path.abspath(__file__)))
d = open(os.path.join(V, "DESIGN.md")).read()
B, E = "<!-- AS-BUILT BEGIN -->", "<!-- AS-BUILT END -->"
parts = []
for f in sorted(glob.glob(os.path.join(V, "design", "C*.md"))):
    txt = open(f).read().strip()
    txt = re.sub(r"^# ", "### ", txt, flags=re.M)
    parts.append(txt)
body = B + "\n\n" + "\n\n".join(parts) + "\n\n" + E
if B in d:
    d = d[:d.index(B)] + body + d[d.index(E) + len(E):]
else:
    d = d.rstrip() + "\n\n---------------------------------------------------------------------------\n\n## 10. As built, per property (generated from design/Cxx.md by tools/mkdesign.py)\n\n" + body + "\n"
open(os.path.join(V, "DESIGN.md"), "w").write(d)
print("spliced", len(parts), "notes")
