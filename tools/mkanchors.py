#!/venv/bin/python
"""Record the comment/docstring-insensitive hash of every cotengra source file of /repo's current
working tree in anchors.json (run on the clean tree, after the evidence was regenerated)."""
import json, os, subprocess, sys
V = os.path.dirname(os.path.dirname(os.path.abspath(__file__)))
sys.path.insert(0, V)
from harness import common
head = subprocess.run("git -C /repo rev-parse --short HEAD", shell=True, capture_output=True, text=True).stdout.strip()
dirty = subprocess.run("git -C /repo status --porcelain -- cotengra", shell=True, capture_output=True, text=True).stdout.strip()
assert not dirty, "refusing to record anchors of a dirty /repo:\n" + dirty
json.dump({"repo_head": head, "files": common.source_hashes("/repo")}, open(os.path.join(V, "anchors.json"), "w"),
          indent=1, sort_keys=True)
print("anchors.json: recorded", head)
