#!/usr/bin/env python3
"""DESIGN.md section 11: table of the independently seeded changes (seeded/*/meta.json) and which
checks catch them."""
import glob, json, os
V = os.path.dirname(os.path.dirname(os.path.abspath(__file__)))
rows = []
for f in sorted(glob.glob(os.path.join(V, "seeded", "*", "meta.json"))):
    m = json.load(open(f))
    name = os.path.basename(os.path.dirname(f))
    v = m.get("validated", {})
    ok = (v.get("demo_clean_exit") == 0 and v.get("demo_changed_exit") not in (0, None) and v.get("patch_applies"))
    tests = (v.get("tests_tail") or "").strip().split("\n")[-1][:60]
    checks = m.get("checks", {})
    res = []
    for p, c in checks.items():
        tag = {0: "quiet", 1: "CAUGHT", 2: "infra"}.get(c["exit"], str(c["exit"]))
        if c["exit"] == 1:
            nf = any("no-failing-input-found" in l for l in c.get("lines", []) if l.startswith("VIOLATION"))
            rep = c.get("replay_on_changed_exit"), c.get("replay_on_clean_exit")
            tag += " (no-failing-input-found)" if nf and rep[0] is None else f" (replay {rep[0]}/{rep[1]})"
        res.append(f"{p}: {tag}")
    for p, c in (m.get("recheck") or {}).items():
        if c.get("exit") == 1 and checks.get(p, {}).get("exit") != 1:
            res.append(f"{p} after strengthening: CAUGHT (replay {c.get('replay_changed')}/{c.get('replay_clean')})"
                       if not c.get("no_input") else f"{p} after strengthening: CAUGHT (no-failing-input-found)")
    what = (m.get("what") or "").replace("\n", " ").replace("|", "/")
    rows.append(f"| `{name}` | {m.get('property')} | {what[:260]} | {'yes' if ok else 'NO'}; {tests} | {'; '.join(res)} | {m.get('note','')} |")
B, E = "<!-- SEEDED BEGIN -->", "<!-- SEEDED END -->"
body = (B + "\n\n| seeded change | property | what it does | demo fails with / passes without; suite | checks (replay exit on changed/clean tree) | note |\n|---|---|---|---|---|---|\n"
        + "\n".join(rows) + "\n\n" + E)
p = os.path.join(V, "DESIGN.md")
d = open(p).read()
if B in d:
    d = d[:d.index(B)] + body + d[d.index(E) + len(E):]
else:
    marker = "## 10. As built, per property"
    head = ("## 11. Independently seeded changes and which checks catch them\n\n"
            "Each change below was written by a fresh sub-agent that saw only the text of one property and its own scratch\n"
            "worktree of /repo (nothing from /verif). `tools/seedtest.py` then confirmed, in another scratch worktree: the demo\n"
            "passes on the unchanged tree and fails with the change, the existing suite stays green, and ran the listed checks\n"
            "with `COTENGRA_REPO=<scratch>`; for a caught change the first replay was re-executed on the changed tree (must exit 1)\n"
            "and on the clean tree (must exit 0). Files: `seeded/<name>/{patch.diff, demo.py, meta.json}`.\n\n")
    d = d.rstrip() + "\n\n---------------------------------------------------------------------------\n\n" + head + body + "\n"
open(p, "w").write(d)
print(len(rows), "seeded rows")
