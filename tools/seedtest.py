#!/venv/bin/python
"""Validate one seeded defect and run the property's checks against it.

  tools/seedtest.py <src_dir> <name> [--tests "<pytest args>"] [--tier quick|thorough] [--props C02,C04]

<src_dir> holds patch.diff, demo.py, meta.json (as delivered by an independent sub-agent).
Steps, all in a scratch worktree of /repo outside /repo and /verif (removed afterwards):
  1. demo.py on the clean checkout        -> must exit 0
  2. git apply patch.diff
  3. demo.py on the changed checkout      -> must exit non-zero
  4. the existing test-suite (or the given subset) -> must pass
  5. ./check <prop> with COTENGRA_REPO=<scratch> for the property (and any extra --props)
The result is written to seeded/<name>/ (patch.diff, demo.py, meta.json with what was run).
"""
import argparse, json, os, shutil, subprocess, sys, tempfile, time

V = os.path.dirname(os.path.dirname(os.path.abspath(__file__)))


def sh(cmd, **kw):
    return subprocess.run(cmd, shell=True, capture_output=True, text=True, **kw)


def main():
    ap = argparse.ArgumentParser()
    ap.add_argument("src")
    ap.add_argument("name")
    ap.add_argument("--tests", default="-n 8 tests")
    ap.add_argument("--tier", default="quick")
    ap.add_argument("--props", default=None)
    ap.add_argument("--keep-going", action="store_true")
    ap.add_argument("--note", default="")
    a = ap.parse_args()
    meta = json.load(open(os.path.join(a.src, "meta.json")))
    prop = meta["property"]
    props = a.props.split(",") if a.props else [prop]
    scratch = tempfile.mkdtemp(prefix="seedtest-", dir="/tmp")
    os.rmdir(scratch)
    r = sh(f"git -C /repo worktree add --detach {scratch} -q")
    assert r.returncode == 0, r.stderr
    out = {"property": prop, "note": a.note, "what": meta.get("what"), "needs": meta.get("needs"),
           "agent_tests_run": meta.get("tests_run"), "validated": {}}
    try:
        env = {**os.environ, "PYTHONPATH": scratch}
        demo = os.path.join(a.src, "demo.py")
        r1 = sh(f"/venv/bin/python {demo}", env=env, cwd=a.src)
        out["validated"]["demo_clean_exit"] = r1.returncode
        r2 = sh(f"git -C {scratch} apply {os.path.abspath(os.path.join(a.src, 'patch.diff'))}")
        if r2.returncode != 0:
            # written against an older HEAD of /repo (before later fix: commits): three-way merge, then
            # keep the rebased patch as the one that is stored
            r2 = sh(f"git -C {scratch} apply --3way {os.path.abspath(os.path.join(a.src, 'patch.diff'))}")
            if r2.returncode == 0:
                reb = sh(f"git -C {scratch} diff HEAD").stdout
                sh(f"git -C {scratch} reset -q")
                shutil.copy(os.path.join(a.src, 'patch.diff'), os.path.join(a.src, 'patch.orig.diff'))
                open(os.path.join(a.src, 'patch.diff'), 'w').write(reb)
                out["validated"]["rebased_onto"] = sh("git -C /repo rev-parse --short HEAD").stdout.strip()
        out["validated"]["patch_applies"] = r2.returncode == 0
        if r2.returncode != 0:
            out["validated"]["patch_error"] = r2.stderr[-500:]
        r3 = sh(f"/venv/bin/python {demo}", env=env, cwd=a.src)
        out["validated"]["demo_changed_exit"] = r3.returncode
        out["validated"]["demo_changed_tail"] = (r3.stdout + r3.stderr)[-400:]
        t0 = time.time()
        r4 = sh(f"cd {scratch} && /venv/bin/python -m pytest -q -p no:cacheprovider {a.tests} 2>&1 | tail -4")
        out["validated"]["tests_cmd"] = f"pytest -q -p no:cacheprovider {a.tests}"
        out["validated"]["tests_tail"] = r4.stdout[-400:]
        out["validated"]["tests_s"] = round(time.time() - t0)
        checks = {}
        for p in props:
            t0 = time.time()
            rc = sh(f"./check {p} --tier {a.tier}", env={**os.environ, "COTENGRA_REPO": scratch}, cwd=V)
            lines = [l for l in rc.stdout.split("\n") if l.startswith("VIOLATION") or l.startswith("KNOWN-FINDING")
                     or l.startswith(f"# {p} tier")]
            checks[p] = {"exit": rc.returncode, "lines": lines[:4], "s": round(time.time() - t0)}
            # the first replay must reproduce on the changed tree and pass on the clean one
            viol = [l for l in lines if l.startswith("VIOLATION") and "no-failing-input-found" not in l]
            if viol:
                path = viol[0].split("replay=")[1].split()[0]
                rr = sh(f"./check {p} --replay {path}", env={**os.environ, "COTENGRA_REPO": scratch}, cwd=V)
                rr2 = sh(f"./check {p} --replay {path}", cwd=V)
                checks[p]["replay_on_changed_exit"] = rr.returncode
                checks[p]["replay_on_clean_exit"] = rr2.returncode
        out["checks"] = checks
        out["caught_by"] = [p for p, c in checks.items() if c["exit"] == 1]
    finally:
        sh(f"git -C /repo worktree remove --force {scratch}")
    dst = os.path.join(V, "seeded", a.name)
    os.makedirs(dst, exist_ok=True)
    shutil.copy(os.path.join(a.src, "patch.diff"), dst)
    shutil.copy(os.path.join(a.src, "demo.py"), dst)
    json.dump(out, open(os.path.join(dst, "meta.json"), "w"), indent=1)
    print(json.dumps({k: out[k] for k in ("property", "validated", "checks", "caught_by") if k in out}, indent=1)[:3000])


if __name__ == "__main__":
    main()
