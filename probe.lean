import CotengraVerif.Model.Paths
open Cotengra Cotengra.Paths
def exTree : BT := .node (.node (.leaf 3) (.node (.leaf 0) (.leaf 2))) (.node (.leaf 1) (.leaf 4))
#eval getPath 5 (traverseDfs exTree)
#eval (getPath 5 (traverseDfs exTree)).bind (fromLinearPath 5)
