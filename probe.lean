open List in
#check @List.Nodup.map_on
#check @List.nodup_map_iff_inj_on
#check @List.Pairwise.map
#check @List.pairwise_map
#check @List.flatMap_congr
example : True := by
  exact?
